package socket

// F22-tcp (C12/C11): the socket senders frame a body with makeHeader(len(body), index)
// without checking that the length fits the header's 31 bits. For a body of 2 GiB the header
// announces length 0 (bit 31 collides with the always-set marker bit), so the peer takes the
// body bytes for the next frames instead of rejecting or erroring the call.

import "testing"

func TestF22TcpLengthDoesNotFitHeader(t *testing.T) {
	for _, n := range []int{1 << 31, 1<<31 + 5, 1<<32 + 7} {
		length, index, ok := parseHeader(makeHeader(n, 3))
		if !ok || index != 3 {
			t.Fatalf("unexpected header decode: %d %d %v", length, index, ok)
		}
		if length != n {
			t.Errorf("a body of %d bytes is announced as %d bytes and nothing on the send path (Handler.send, conn.send) rejects it", n, length)
		}
	}
}
