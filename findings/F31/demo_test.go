package push

// F31 (C19): a poll that times out returns {} but leaves its responder channel registered in
// b.responders. The next accepted message (Unicast reports true) is sent into that abandoned
// channel, and the client's next poll gets nothing: an accepted message is lost, in a purely
// sequential history (no race needed).
// obligation: rpc/plugins/push.(*Broker).message#post:a_poll_that_gives_up_does_not_leave_its_responder_registered

import (
	"context"
	"testing"
	"time"

	"github.com/hprose/hprose-golang/v3/rpc/core"
)

func TestF31MessageAcceptedAfterATimedOutPollIsDelivered(t *testing.T) {
	service := core.NewService()
	b := NewBroker(service)
	b.Timeout = 50 * time.Millisecond
	b.HeartBeat = 10 * time.Second
	sc := core.NewServiceContext(service)
	sc.RequestHeaders().Set("id", "client1")
	ctx := core.WithContext(context.Background(), sc)

	if !b.subscribe(ctx, "news") {
		t.Fatal("subscribe failed")
	}
	// 1. a poll with nothing to deliver: times out and returns the empty batch
	if got := b.message(ctx); got == nil || len(got) != 0 {
		t.Fatalf("first poll: %v", got)
	}
	// 2. a message is published and ACCEPTED
	if !b.Unicast(context.Background(), "hello", "news", "client1", "pub") {
		t.Fatal("publish refused")
	}
	// 3. the client polls again, within the heartbeat: the accepted message must arrive
	done := make(chan map[string][]Message, 1)
	go func() { done <- b.message(ctx) }()
	select {
	case got := <-done:
		if len(got["news"]) != 1 || got["news"][0].Data != "hello" {
			t.Fatalf("second poll: accepted message not delivered, got %v", got)
		}
	case <-time.After(2 * time.Second):
		t.Fatal("second poll: accepted message not delivered (poll returned nothing within 2s)")
	}
}
