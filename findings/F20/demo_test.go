package mock_test

// F20 (C11): a request that makes the decoder panic (here: a reference index that does not
// exist, r9;) was decoded OUTSIDE the recovering closure of Service.Process. Over the mock
// transport (and fasthttp) nothing else recovers: the process dies. Runs the call in a child.

import (
	"context"
	"os"
	"os/exec"
	"testing"

	"github.com/hprose/hprose-golang/v3/rpc/core"
	"github.com/hprose/hprose-golang/v3/rpc/mock"
)

func TestF20UndecodableRequestKillsProcess(t *testing.T) {
	if os.Getenv("F20_CHILD") == "1" {
		mock.RegisterHandler()
		mock.RegisterTransport()
		service := core.NewService()
		service.AddFunction(func(s string) string { return s }, "echo")
		server := mock.Server{Address: "f20"}
		if err := service.Bind(server); err != nil {
			os.Exit(4)
		}
		client := core.NewClient("mock://f20")
		// send raw bytes through the IO chain: replace the encoded request
		client.Use(func(ctx context.Context, request []byte, next core.NextIOHandler) ([]byte, error) {
			return next(ctx, []byte("Cs4\"echo\"a1{r9;}z"))
		})
		_, err := client.Invoke("echo", []interface{}{"x"})
		if err == nil {
			os.Exit(3)
		}
		os.Exit(0) // an error for this call and the process is alive
	}
	cmd := exec.Command(os.Args[0], "-test.run", "TestF20UndecodableRequestKillsProcess")
	cmd.Env = append(os.Environ(), "F20_CHILD=1")
	out, err := cmd.CombinedOutput()
	if err != nil {
		s := string(out)
		if len(s) > 400 {
			s = s[:400]
		}
		t.Fatalf("the process did not survive an undecodable request: %v\n%s", err, s)
	}
}
