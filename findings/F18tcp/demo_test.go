package socket

// F18-tcp (C09): the socket client numbers calls with a 31-bit counter and registers each call
// under its number without checking that the number is free (conn.store overwrites). A call
// still pending after 2^31 further calls on the same connection shares its number with the
// newest call, whose registration replaces it; the response to the OLD request is then delivered
// to the NEW caller. 2^31 calls cannot be issued inside a test, so the test puts the connection
// in the state those calls leave behind (counter advanced by 2^31 - 1); everything else is the
// real code.
//
// Replay (from /repo, nothing is written into the repository):
//   echo '{"Replace":{"'$PWD'/rpc/socket/zz_f18_test.go":"/verif/findings/F18tcp/demo_test.go"}}' > /tmp/ov.json
//   go test -overlay /tmp/ov.json -vet=off -count=1 -timeout 60s -run TestF18 ./rpc/socket/
// The test FAILS on a tree with the defect.

import (
	"context"
	"io"
	"net"
	"sync/atomic"
	"testing"
	"time"
)

func TestF18tcpIndexReuseWhilePending(t *testing.T) {
	client, peer := net.Pipe()
	defer client.Close()
	defer peer.Close()
	// scripted peer: holds "slow" back; when its number shows up again answers the held one
	// first, then the new one
	go func() {
		held := -1
		reply := func(index int, s string) {
			h := makeHeader(len(s), index)
			peer.Write(append(h[:], s...))
		}
		for {
			var h [12]byte
			if _, err := io.ReadFull(peer, h[:]); err != nil {
				return
			}
			length, index, ok := parseHeader(h)
			if !ok {
				return
			}
			body := make([]byte, length)
			if _, err := io.ReadFull(peer, body); err != nil {
				return
			}
			if string(body) == "slow" {
				held = index
				continue
			}
			if index == held || (string(body) == "flush" && held >= 0) {
				reply(held, "answer-to-slow")
				held = -1
			}
			reply(index, "answer-to-"+string(body))
		}
	}()
	c := &conn{Conn: client, requests: make(chan data), results: make(map[int]chan data), onClose: func(net.Conn) {}}
	ctx, cancel := context.WithCancel(context.Background())
	defer cancel()
	go c.Send(ctx, func() {})
	go c.Receive(ctx, func() {})

	aDone := make(chan string, 1)
	go func() {
		actx, acancel := context.WithTimeout(ctx, 20*time.Second)
		defer acancel()
		r, err := c.Transport(actx, []byte("slow"))
		if err != nil {
			aDone <- "error: " + err.Error()
			return
		}
		aDone <- string(r)
	}()
	time.Sleep(100 * time.Millisecond)
	// the state after 2^31 - 1 further (answered) calls: only the counter has moved
	atomic.AddInt32(&c.counter, 0x7fffffff)
	bctx, bcancel := context.WithTimeout(ctx, 5*time.Second)
	r, err := c.Transport(bctx, []byte("fast"))
	bcancel()
	if err != nil {
		t.Fatalf("caller B: %v", err)
	}
	if string(r) != "answer-to-fast" {
		t.Fatalf("caller B received %q: the response to A's request, not to its own", r)
	}
	fctx, fcancel := context.WithTimeout(ctx, 5*time.Second)
	c.Transport(fctx, []byte("flush"))
	fcancel()
	select {
	case a := <-aDone:
		if a != "answer-to-slow" {
			t.Fatalf("caller A got %q", a)
		}
	case <-time.After(2 * time.Second):
		t.Fatalf("caller A never received its response")
	}
}
