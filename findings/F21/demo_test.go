package websocket_test

// F21 (C11/C12): a binary WebSocket message shorter than the 4-byte index header.
// Client side: conn.receive sliced body[:4] unchecked -> panic in the Receive goroutine, whose
// deferred function calls conn.Exit (recover() there is not called by the deferred function itself
// and does not recover) -> the client process dies. The test runs the client in a child process.

import (
	"net/http"
	"os"
	"os/exec"
	"testing"
	"time"

	fws "github.com/fasthttp/websocket"
	"github.com/hprose/hprose-golang/v3/rpc/core"
	"github.com/hprose/hprose-golang/v3/rpc/websocket"
)

func TestF21ShortMessageFromServer(t *testing.T) {
	if os.Getenv("F21_CHILD") == "1" {
		websocket.RegisterTransport()
		client := core.NewClient("ws://127.0.0.1:8497/")
		client.Timeout = time.Second
		var proxy struct {
			Hello func(name string) (string, error)
		}
		client.UseService(&proxy)
		_, err := proxy.Hello("x")
		if err == nil {
			os.Exit(3) // a 2-byte message cannot be a valid response
		}
		os.Exit(0) // an error for this call, process alive: contained
	}
	// a peer that answers every message with a 2-byte binary message
	up := fws.Upgrader{Subprotocols: []string{"hprose"}, CheckOrigin: func(*http.Request) bool { return true }}
	srv := &http.Server{Addr: "127.0.0.1:8497", Handler: http.HandlerFunc(func(w http.ResponseWriter, r *http.Request) {
		c, err := up.Upgrade(w, r, nil)
		if err != nil {
			return
		}
		defer c.Close()
		for {
			if _, _, err := c.ReadMessage(); err != nil {
				return
			}
			c.WriteMessage(fws.BinaryMessage, []byte{0, 1})
		}
	})}
	go srv.ListenAndServe()
	defer srv.Close()
	time.Sleep(50 * time.Millisecond)
	cmd := exec.Command(os.Args[0], "-test.run", "TestF21ShortMessageFromServer")
	cmd.Env = append(os.Environ(), "F21_CHILD=1")
	out, err := cmd.CombinedOutput()
	if err != nil {
		t.Fatalf("the client process did not survive a 2-byte message from its peer: %v\n%s", err, firstLines(string(out), 6))
	}
}

func firstLines(s string, n int) string {
	k := 0
	for i := range s {
		if s[i] == '\n' {
			k++
			if k == n {
				return s[:i]
			}
		}
	}
	return s
}
