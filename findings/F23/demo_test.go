package mock_test

// F23 (C11): under the execute-timeout plugin the published function runs in a goroutine of its
// own, outside the recovering closure of Service.Process: a panicking function killed the server
// process. Runs service + client in a child process.

import (
	"os"
	"os/exec"
	"testing"
	"time"

	"github.com/hprose/hprose-golang/v3/rpc/core"
	"github.com/hprose/hprose-golang/v3/rpc/mock"
	"github.com/hprose/hprose-golang/v3/rpc/plugins/timeout"
)

func TestF23PanicUnderTimeoutPlugin(t *testing.T) {
	if os.Getenv("F23_CHILD") == "1" {
		mock.RegisterHandler()
		mock.RegisterTransport()
		service := core.NewService()
		service.Use(timeout.New(time.Second))
		service.AddFunction(func() string { panic("boom") }, "boom")
		service.AddFunction(func() string { return "ok" }, "fine")
		if err := service.Bind(mock.Server{Address: "f23"}); err != nil {
			os.Exit(4)
		}
		client := core.NewClient("mock://f23")
		if _, err := client.Invoke("boom", nil); err == nil {
			os.Exit(3) // a panic must reach the caller as an error
		}
		if r, err := client.Invoke("fine", nil); err != nil || len(r) != 1 || r[0] != "ok" {
			os.Exit(5) // later calls must complete normally
		}
		os.Exit(0)
	}
	cmd := exec.Command(os.Args[0], "-test.run", "TestF23PanicUnderTimeoutPlugin")
	cmd.Env = append(os.Environ(), "F23_CHILD=1")
	out, err := cmd.CombinedOutput()
	if err != nil {
		s := string(out)
		if len(s) > 300 {
			s = s[:300]
		}
		t.Fatalf("a panicking service function under the timeout plugin was not contained: %v\n%s", err, s)
	}
}
