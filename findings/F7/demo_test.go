package io

// F7 (C04, C02): a back-reference whose index is outside the reference table (r5; with fewer
// than six items before it, any index in simple mode, a negative index) indexes
// decoderRefer.ref unchecked: the process panics on untrusted input.
//
// Replay: overlay this file as io/zz_f7_test.go; go test -run TestF7 ./io/

import "testing"

func TestF7ReferenceOutOfRange(t *testing.T) {
	for _, in := range []string{"r5;", "r-1;", `a2{s3"abc"r7;}`} {
		func() {
			defer func() {
				if e := recover(); e != nil {
					t.Errorf("Unmarshal(%q) panicked: %v", in, e)
				}
			}()
			var v interface{}
			dec := NewDecoder([]byte(in)).Simple(false)
			dec.Decode(&v)
			if dec.Error == nil {
				t.Errorf("Unmarshal(%q): no error, value %v", in, v)
			}
		}()
	}
}
