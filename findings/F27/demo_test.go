package http_test

// F27 (C13): MaxRequestLength is tested against the declared Content-Length only. A chunked
// request has no declared length (-1): its body is read completely and processed whatever its size.

import (
	"bytes"
	"context"
	"io"
	"net"
	nethttp "net/http"
	"strings"
	"sync/atomic"
	"testing"
	"time"

	"github.com/hprose/hprose-golang/v3/rpc/core"
	rpchttp "github.com/hprose/hprose-golang/v3/rpc/http"
)

type chunked struct{ r io.Reader }

func (c chunked) Read(p []byte) (int, error) { return c.r.Read(p) }

func TestF27ChunkedBodyBypassesMaxRequestLength(t *testing.T) {
	rpchttp.RegisterHandler()
	service := core.NewService()
	service.MaxRequestLength = 64
	var seen int64
	service.Use(func(ctx context.Context, request []byte, next core.NextIOHandler) ([]byte, error) {
		atomic.StoreInt64(&seen, int64(len(request)))
		return next(ctx, request)
	})
	service.AddFunction(func(s string) int { return len(s) }, "size")
	ln, err := net.Listen("tcp", "127.0.0.1:0")
	if err != nil {
		t.Fatal(err)
	}
	server := &nethttp.Server{}
	if err := service.Bind(server); err != nil {
		t.Fatal(err)
	}
	go server.Serve(ln)
	defer server.Close()
	time.Sleep(20 * time.Millisecond)
	body := []byte("Cs4\"size\"a1{s200\"" + strings.Repeat("x", 200) + "\"}z")
	req, _ := nethttp.NewRequest("POST", "http://"+ln.Addr().String()+"/", chunked{bytes.NewReader(body)}) // unknown length -> chunked
	resp, err := nethttp.DefaultClient.Do(req)
	if err != nil {
		t.Fatal(err)
	}
	io.ReadAll(resp.Body)
	resp.Body.Close()
	if n := atomic.LoadInt64(&seen); n > 64 {
		t.Fatalf("a %d-byte request was processed although MaxRequestLength is 64 (status %d)", n, resp.StatusCode)
	}
	if resp.StatusCode != nethttp.StatusRequestEntityTooLarge {
		t.Fatalf("want 413, got %d", resp.StatusCode)
	}
}
