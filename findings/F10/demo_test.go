package io

// F10/F13 (C04): element counts read off the wire are trusted: make([]T, count),
// UnsafeGrow(count), UnsafeMakeMap(count) and the element loops run before a single element has
// arrived. A negative count panics (makeslice: len out of range), a count of 10^10 asks for tens
// of gigabytes, and the loops spin count times at the end of the input.
//
// Replay: overlay this file as io/zz_f10_test.go;
//   (ulimit -v 4000000; go test -run TestF10 -timeout 60s ./io/)

import (
	"testing"
	"time"
)

func TestF10CountsOffTheWire(t *testing.T) {
	type S struct{ A int }
	Register((*S)(nil))
	cases := []struct {
		in  string
		dst func() interface{}
	}{
		{`c1"S"-1{}o0{}`, func() interface{} { var v interface{}; return &v }},
		{`a-1{}`, func() interface{} { var v []int; return &v }},
		{`a-1{}`, func() interface{} { var v []byte; return &v }},
		{`a3000000000{`, func() interface{} { var v []int64; return &v }},
		{`a3000000000{`, func() interface{} { var v interface{}; return &v }},
		{`m3000000000{`, func() interface{} { var v map[string]string; return &v }},
		{`c1"S"3000000000{`, func() interface{} { var v interface{}; return &v }},
		{`a300000000{`, func() interface{} { var v [4]int; return &v }},
	}
	for _, c := range cases {
		func() {
			defer func() {
				if e := recover(); e != nil {
					t.Errorf("Unmarshal(%q) panicked: %v", c.in, e)
				}
			}()
			t0 := time.Now()
			err := Unmarshal([]byte(c.in), c.dst())
			if d := time.Since(t0); d > time.Second {
				t.Errorf("Unmarshal(%q) took %v for %d bytes of input", c.in, d, len(c.in))
			}
			if err == nil {
				t.Errorf("Unmarshal(%q): no error", c.in)
			}
		}()
	}
}
