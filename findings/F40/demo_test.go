package io

// F40 (C04): an object whose class definition names a field the registered struct does not
// have, decoded into a map[string]interface{} destination, looked the field up in the field
// table, ignored the miss and called a method of the zero FieldAccessor's nil Type: a panic on
// well-formed wire bytes. (The struct destination and interface{} destination skip unknown
// fields; only the map destination did not check.)
// obligation: io.(mapDecoder).decodeObjectAsMap#nilcall:field.Type.UnsafeNew()

import "testing"

type f40Known struct {
	A int
}

func TestF40UnknownFieldIntoMap(t *testing.T) {
	RegisterName("F40Known", (*f40Known)(nil))
	// class F40Known with the fields a and zz; the object has a=1, zz=2
	data := []byte(`c8"F40Known"2{s1"a"s2"zz"}o0{12}`)
	var m map[string]interface{}
	func() {
		defer func() {
			if e := recover(); e != nil {
				t.Fatalf("decoding panicked: %v", e)
			}
		}()
		dec := NewDecoder(data)
		dec.Decode(&m)
		if dec.Error != nil {
			t.Logf("decode error: %v", dec.Error)
		}
	}()
	if m["a"] != 1 {
		t.Errorf("m = %v", m)
	}
}
