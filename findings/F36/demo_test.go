package io

// F36 (C02): Decoder.LastReferenceIndex computes dec.refer.Last() and drops it (missing
// return): it answers -1 in reference mode too, so a custom ValueDecoder that reserves a
// reference slot (AddReference(nil); i := LastReferenceIndex(); ...; SetReference(i, v)) calls
// SetReference(-1, v), which indexes the table with -1.
//
// Replay: overlay this file as io/zz_f36_test.go; go test -run TestF36 ./io/

import "testing"

func TestF36LastReferenceIndex(t *testing.T) {
	dec := NewDecoder(nil).Simple(false)
	dec.AddReference("a")
	dec.AddReference("b")
	if i := dec.LastReferenceIndex(); i != 1 {
		t.Fatalf("LastReferenceIndex() = %d after two references were added, want 1", i)
	}
}
