package core

// F17 (C08): Service.Execute turns every argument into a reflect.Value with reflect.ValueOf. A nil
// argument for a parameter of interface type (interface{}, error, any interface) gives the zero
// Value, and reflect.Value.Call panics on it ("reflect: Call using zero Value argument"). The
// panic is recovered by Process, so the caller gets an ERROR for a perfectly legal call:
// a published func(x interface{}) cannot be called with nil.
//
// Replay: overlay this file as rpc/core/zz_f17_test.go; go test -run TestF17 ./rpc/core/

import (
	"context"
	"strings"
	"testing"
)

func TestF17NilArgumentForInterfaceParameter(t *testing.T) {
	service := NewService()
	calls := 0
	service.AddFunction(func(x interface{}) string {
		calls++
		if x == nil {
			return "got nil"
		}
		return "got something"
	}, "show")
	service.AddFunction(func(prefix string, rest ...interface{}) int {
		return len(rest)
	}, "count")
	ctx := WithContext(context.Background(), NewServiceContext(service))
	response, err := service.Handle(ctx, []byte(`Cs4"show"a1{n}z`))
	if err != nil || !strings.Contains(string(response), "got nil") || calls != 1 {
		t.Errorf("show(nil): response %q err %v, function called %d time(s)", response, err, calls)
	}
	response, err = service.Handle(ctx, []byte(`Cs5"count"a3{s1"p"n1}z`))
	if err != nil || string(response) != "R2z" {
		t.Errorf("count(\"p\", nil, 1): response %q err %v", response, err)
	}
}
