package core

// F29 (C15): Unuse removes handlers by code pointer, not by identity.
// Two instances of one plugin type are installed; removing one removes both.
// Run: go test -overlay (see README) -run TestF29 ./rpc/core/

import (
	"context"
	"testing"
)

type f29Tracer struct {
	name  string
	trace *[]string
}

func (t *f29Tracer) Handler(ctx context.Context, name string, args []interface{}, next NextInvokeHandler) ([]interface{}, error) {
	*t.trace = append(*t.trace, t.name)
	return next(ctx, name, args)
}

func TestF29UnuseRemovesOnlyTheNamedHandler(t *testing.T) {
	var trace []string
	a := &f29Tracer{"A", &trace}
	b := &f29Tracer{"B", &trace}
	pm := NewInvokeManager(func(ctx context.Context, name string, args []interface{}) ([]interface{}, error) {
		return nil, nil
	})
	inv, _ := SeparatePluginHandlers([]PluginHandler{a, b})
	pm.Use(inv...)
	pm.Handler().(NextInvokeHandler)(context.Background(), "x", nil)
	if len(trace) != 2 {
		t.Fatalf("setup: trace = %v", trace)
	}
	trace = nil
	rm, _ := SeparatePluginHandlers([]PluginHandler{a})
	pm.Unuse(rm...)
	pm.Handler().(NextInvokeHandler)(context.Background(), "x", nil)
	if len(trace) != 1 || trace[0] != "B" {
		t.Fatalf("after Unuse(a) the call should pass through exactly [B], got %v", trace)
	}
}
