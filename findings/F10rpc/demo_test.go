package core

// F10-rpc (C04, C11): the RPC codecs read element counts off the wire with ReadInt and trust them.
//  * service side (serviceCodec.decodeArguments): the argument count of a call sizes two make()
//    calls: 24 bytes of request ask the server for tens of gigabytes (the process dies of it;
//    no recover helps);
//  * client side (clientCodec.Decode): a negative result count from the server makes
//    `for i := count; i < n; i++ { results[i] = ... }` index results[-1] in the caller's goroutine.
//
// Replay: overlay this file as rpc/core/zz_f10rpc_test.go;
//   (ulimit -v 4000000; go test -run TestF10rpc -timeout 60s ./rpc/core/)

import (
	"context"
	"reflect"
	"testing"
)

func TestF10rpcServiceArgumentCount(t *testing.T) {
	service := NewService()
	service.AddFunction(func(a, b int) int { return a + b }, "add")
	ctx := WithContext(context.Background(), NewServiceContext(service))
	response, err := service.Handle(ctx, []byte(`Cs3"add"a3000000000{z`))
	t.Logf("response %q err %v", response, err)
}

func TestF10rpcClientResultCount(t *testing.T) {
	defer func() {
		if e := recover(); e != nil {
			t.Fatalf("decoding the response panicked in the caller: %v", e)
		}
	}()
	cc := NewClientContext()
	cc.ReturnType = []reflect.Type{reflect.TypeOf(0), reflect.TypeOf("")}
	_, err := NewClientCodec().Decode([]byte(`Ra-1{}z`), cc)
	if err == nil {
		t.Errorf("no error for a negative result count")
	}
}
