package io

// F6 (C02): in reference mode the encoder numbers every item the decoder will put into its
// reference table. writeBytesSliceBody reserves n numbers for a [][]byte of n elements, but a nil
// element is written as the null tag, which the decoder does not number: every back-reference
// after such a slice is off by the number of nil elements and resolves to the wrong item or to
// none.
//
// Replay: overlay this file as io/zz_f6_test.go; go test -run TestF6 ./io/

import (
	"reflect"
	"testing"
)

func TestF6NilElementsInBytesSlice(t *testing.T) {
	type S struct {
		A [][]byte
		B string
		C string
	}
	in := S{A: [][]byte{nil, {1}, nil}, B: "hello", C: "hello"}
	enc := new(Encoder).Simple(false)
	if err := enc.Encode(in); err != nil {
		t.Fatal(err)
	}
	data := enc.Bytes()
	var out S
	dec := NewDecoder(data).Simple(false)
	dec.Decode(&out)
	if dec.Error != nil {
		t.Fatalf("%s does not decode: %v", data, dec.Error)
	}
	if !reflect.DeepEqual(in.B, out.B) || out.C != "hello" || len(out.A) != 3 {
		t.Fatalf("%s decoded to %+v", data, out)
	}
}
