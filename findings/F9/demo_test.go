package io

// F9 (C04): Decoder.next(n) is called with lengths read off the wire and trusts them:
//   n < 0            -> dec.buf[dec.head : dec.head+n]  panics (slice bounds out of range)
//   n > what is left -> make([]byte, remain, n) allocates n bytes before any of them arrived;
//                       for n near 2^63 the runtime panics (makeslice: cap out of range), for
//                       n of a few GiB the process is killed by the allocation.
// Both reach it through Unmarshal of a bytes value (b<len>"...").
//
// Replay (from /repo):
//   echo '{"Replace":{"'$PWD'/io/zz_f9_test.go":"/verif/findings/F9/demo_test.go"}}' > /tmp/ov.json
//   go test -overlay /tmp/ov.json -vet=off -count=1 -timeout 60s -run TestF9 ./io/

import "testing"

func f9decode(t *testing.T, in string) (err error) {
	defer func() {
		if e := recover(); e != nil {
			t.Errorf("Unmarshal(%q) panicked: %v", in, e)
		}
	}()
	var b []byte
	return Unmarshal([]byte(in), &b)
}

func TestF9NegativeAndOversizedLengths(t *testing.T) {
	for _, in := range []string{`b-5""`, `b9223372036854775807"abc"`, `b-9223372036854775808"abc"`} {
		if err := f9decode(t, in); err == nil && !t.Failed() {
			t.Errorf("Unmarshal(%q) reported no error", in)
		}
	}
}
