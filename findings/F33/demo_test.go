package reverse

// F33 (C11): Provider.process unpacks the call triple (c.Value(): three type assertions) BEFORE
// it installs its recover. A malformed triple from the service (anything but [int, string, list])
// panics outside the recover; process runs on a bare goroutine started by dispatch, so the
// panic kills the provider's process.
//
// Replay (from /repo):
//   echo '{"Replace":{"'$PWD'/rpc/plugins/reverse/zz_f33_test.go":"/verif/findings/F33/demo_test.go"}}' > /tmp/ov.json
//   go test -overlay /tmp/ov.json -vet=off -count=1 -timeout 60s -run TestF33 ./rpc/plugins/reverse/

import (
	"testing"

	"github.com/hprose/hprose-golang/v3/rpc/core"
)

func TestF33MalformedCallTriple(t *testing.T) {
	p := NewProvider(core.NewClient())
	defer func() {
		if e := recover(); e != nil {
			t.Fatalf("Provider.process let a panic escape (on its own goroutine this ends the process): %v", e)
		}
	}()
	rv := p.process(call{"not-a-number", 2, 3})
	if s, _ := rv[2].(string); s == "" {
		t.Fatalf("a malformed call was not answered with an error: %v", rv)
	}
}
