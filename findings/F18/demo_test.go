package udp

// F18 (C09): the UDP client numbers its calls with a 15-bit counter and registers the call
// under that number without checking that the number is free. A call that is still pending
// when 32768 further calls have been issued on the same connection shares its number with the
// newest call: store() overwrites its registration, and the response to the OLD request is
// delivered to the NEW caller.
//
// Replay (from /repo, nothing is written into the repository):
//   echo '{"Replace":{"'$PWD'/rpc/udp/zz_f18_test.go":"/verif/findings/F18/demo_test.go"}}' > /tmp/ov.json
//   go test -overlay /tmp/ov.json -vet=off -count=1 -timeout 120s -run TestF18 ./rpc/udp/
// The test FAILS on a tree with the defect ("caller B received the response to A's request").

import (
	"context"
	"net"
	"testing"
	"time"
)

func TestF18IndexReuseWhilePending(t *testing.T) {
	addr, _ := net.ResolveUDPAddr("udp", "127.0.0.1:0")
	server, err := net.ListenUDP("udp", addr)
	if err != nil {
		t.Fatal(err)
	}
	defer server.Close()
	// scripted peer: holds the request "slow" back; answers everything else at once; when the
	// number of the held request shows up again, it first answers the held one, then the new one
	go func() {
		var buf [65507]byte
		held := -1
		var heldAddr *net.UDPAddr
		for {
			n, from, err := server.ReadFromUDP(buf[:])
			if err != nil {
				return
			}
			_, index, ok := parseHeader(buf[:8])
			if !ok || n < 8 {
				continue
			}
			body := string(buf[8:n])
			reply := func(index int, to *net.UDPAddr, s string) {
				h := makeHeader(len(s), index)
				server.WriteToUDP(append(h[:], s...), to)
			}
			if body == "slow" {
				held, heldAddr = index, from
				continue
			}
			if index == held || (body == "flush" && held >= 0) {
				reply(held, heldAddr, "answer-to-slow")
				held = -1
				time.Sleep(20 * time.Millisecond)
			}
			reply(index, from, "answer-to-"+body)
		}
	}()
	raw, err := net.DialUDP("udp", nil, server.LocalAddr().(*net.UDPAddr))
	if err != nil {
		t.Fatal(err)
	}
	c := &conn{Conn: raw, requests: make(chan data), results: make(map[int]chan data), onClose: func(net.Conn) {}}
	ctx, cancel := context.WithCancel(context.Background())
	defer cancel()
	go c.Send(ctx, func() {})
	go c.Receive(ctx, func() {})

	// caller A: pending for the whole test (at most 60 s)
	aDone := make(chan string, 1)
	go func() {
		actx, acancel := context.WithTimeout(ctx, 60*time.Second)
		defer acancel()
		r, err := c.Transport(actx, []byte("slow"))
		if err != nil {
			aDone <- "error: " + err.Error()
			return
		}
		aDone <- string(r)
	}()
	time.Sleep(50 * time.Millisecond)
	// 32768 further calls, one after the other, each answered at once
	for i := 0; i < 32768; i++ {
		cctx, ccancel := context.WithTimeout(ctx, 5*time.Second)
		r, err := c.Transport(cctx, []byte("fast"))
		ccancel()
		if err != nil {
			t.Fatalf("call %d: %v", i, err)
		}
		if string(r) != "answer-to-fast" {
			t.Fatalf("call %d (caller B) received %q: the response to A's request, not to its own", i, r)
		}
	}
	// the peer now releases A's answer (if the collision above did not already force it out)
	fctx, fcancel := context.WithTimeout(ctx, 5*time.Second)
	if r, err := c.Transport(fctx, []byte("flush")); err != nil || string(r) != "answer-to-flush" {
		t.Fatalf("flush call: %q %v", r, err)
	}
	fcancel()
	select {
	case a := <-aDone:
		if a != "answer-to-slow" {
			t.Fatalf("caller A got %q", a)
		}
	case <-time.After(2 * time.Second):
		t.Fatalf("caller A never received its response although the peer sent it")
	}
}
