package io

// F35 (C14, C04): Decoder.ResetReader keeps whatever buffer the decoder has. After memory-mode
// use (NewDecoder / ResetBytes) that buffer is the CALLER's input slice: the next read from the
// new reader is written into the caller's data. If that input was empty (len 0, non-nil) the
// decoder asks the reader for 0 bytes forever: Decode never returns.
//
// Replay (from /repo):
//   echo '{"Replace":{"'$PWD'/io/zz_f35_test.go":"/verif/findings/F35/demo_test.go"}}' > /tmp/ov.json
//   go test -overlay /tmp/ov.json -vet=off -count=1 -timeout 60s -run TestF35 ./io/

import (
	"strings"
	"testing"
	"time"
)

func TestF35ReaderOverwritesCallersInput(t *testing.T) {
	input := []byte(`s5"hello"`)
	keep := string(input)
	dec := NewDecoder(input)
	var s string
	dec.Decode(&s)
	if s != "hello" {
		t.Fatalf("setup: %q %v", s, dec.Error)
	}
	dec.ResetReader(strings.NewReader("i12345;"))
	var i int
	dec.Decode(&i)
	if string(input) != keep {
		t.Fatalf("the caller's input slice was overwritten with the next stream's bytes: %q became %q", keep, input)
	}
	if i != 12345 {
		t.Fatalf("decoded %d (%v)", i, dec.Error)
	}
}

func TestF35EmptyInputThenReaderHangs(t *testing.T) {
	done := make(chan int, 1)
	go func() {
		dec := NewDecoder([]byte{})
		dec.ResetReader(strings.NewReader("i12345;"))
		var i int
		dec.Decode(&i)
		done <- i
	}()
	select {
	case i := <-done:
		if i != 12345 {
			t.Fatalf("decoded %d", i)
		}
	case <-time.After(2 * time.Second):
		t.Fatalf("Decode did not return within 2 s (the decoder keeps asking the reader for 0 bytes)")
	}
}
