package io

// F39 (C04): a back-reference can point at a slot of the reference table that holds no value
// (decoders reserve slots with AddReference(nil): the client codec does it for a result list).
// ReadReference then asks for a converter from the nil source type: GetConverter calls a method
// of the nil reflect.Type, or the converter does Value.Set with a zero Value; both panic. Over
// RPC this is `Ra2{r0;1}z` from a server, decoded in the caller's goroutine.
//
// Replay: overlay this file as io/zz_f39_test.go; go test -run TestF39 ./io/

import "testing"

func TestF39ReferenceToAnEmptySlot(t *testing.T) {
	for _, dst := range []interface{}{new(interface{}), new(int), new([]int), new(string)} {
		func() {
			defer func() {
				if e := recover(); e != nil {
					t.Errorf("reference to an empty slot into %T panicked: %v", dst, e)
				}
			}()
			dec := NewDecoder([]byte("r0;")).Simple(false)
			dec.AddReference(nil) // a reserved slot, as the codecs make them
			dec.Decode(dst)
			if dec.Error == nil {
				t.Errorf("no error decoding into %T", dst)
			}
		}()
	}
}
