package websocket

// F18-ws (C09): as F18-tcp, for the WebSocket client (31-bit call numbers, conn.store overwrote
// the registration of a pending call that had the same number).
//
// Replay (from /repo):
//   echo '{"Replace":{"'$PWD'/rpc/websocket/zz_f18_test.go":"/verif/findings/F18ws/demo_test.go"}}' > /tmp/ov.json
//   go test -overlay /tmp/ov.json -vet=off -count=1 -timeout 60s -run TestF18 ./rpc/websocket/

import (
	"context"
	"net/http"
	"net/http/httptest"
	"strings"
	"sync/atomic"
	"testing"
	"time"

	"github.com/fasthttp/websocket"
)

func TestF18wsIndexReuseWhilePending(t *testing.T) {
	up := websocket.Upgrader{Subprotocols: []string{"hprose"}}
	srv := httptest.NewServer(http.HandlerFunc(func(w http.ResponseWriter, r *http.Request) {
		ws, err := up.Upgrade(w, r, nil)
		if err != nil {
			return
		}
		defer ws.Close()
		held := -1
		reply := func(index int, s string) {
			h := makeHeader(index)
			ws.WriteMessage(websocket.BinaryMessage, append(h[:], s...))
		}
		for {
			_, msg, err := ws.ReadMessage()
			if err != nil || len(msg) < 4 {
				return
			}
			var h [4]byte
			copy(h[:], msg)
			index, _ := parseHeader(h[:])
			body := string(msg[4:])
			if body == "slow" {
				held = index
				continue
			}
			if index == held || (body == "flush" && held >= 0) {
				reply(held, "answer-to-slow")
				held = -1
			}
			reply(index, "answer-to-"+body)
		}
	}))
	defer srv.Close()
	var d websocket.Dialer
	ws, resp, err := d.Dial("ws"+strings.TrimPrefix(srv.URL, "http"), http.Header{"Sec-WebSocket-Protocol": []string{"hprose"}})
	if err != nil {
		t.Fatal(err)
	}
	resp.Body.Close()
	c := &conn{Conn: ws, requests: make(chan data), results: make(map[int]chan data), onClose: func(*websocket.Conn) {}}
	ctx, cancel := context.WithCancel(context.Background())
	defer cancel()
	go c.Send(ctx, func() {})
	go c.Receive(ctx, func() {})
	aDone := make(chan string, 1)
	go func() {
		actx, acancel := context.WithTimeout(ctx, 20*time.Second)
		defer acancel()
		r, err := c.Transport(actx, []byte("slow"))
		if err != nil {
			aDone <- "error: " + err.Error()
			return
		}
		aDone <- string(r)
	}()
	time.Sleep(100 * time.Millisecond)
	atomic.AddInt32(&c.counter, 0x7fffffff) // the state 2^31 - 1 answered calls later
	bctx, bcancel := context.WithTimeout(ctx, 5*time.Second)
	r, err := c.Transport(bctx, []byte("fast"))
	bcancel()
	if err != nil {
		t.Fatalf("caller B: %v", err)
	}
	if string(r) != "answer-to-fast" {
		t.Fatalf("caller B received %q: the response to A's request, not to its own", r)
	}
	fctx, fcancel := context.WithTimeout(ctx, 5*time.Second)
	c.Transport(fctx, []byte("flush"))
	fcancel()
	select {
	case a := <-aDone:
		if a != "answer-to-slow" {
			t.Fatalf("caller A got %q", a)
		}
	case <-time.After(2 * time.Second):
		t.Fatalf("caller A never received its response")
	}
}
