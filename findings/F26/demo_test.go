package http_test

// F26 (C12): when reading the request body fails (the client sent fewer bytes than the declared
// Content-Length and closed), ServeHTTP reported the error and then went on to process the
// zero-padded buffer as if it were the request.

import (
	"context"
	"net"
	nethttp "net/http"
	"sync"
	"testing"
	"time"

	"github.com/hprose/hprose-golang/v3/rpc/core"
	rpchttp "github.com/hprose/hprose-golang/v3/rpc/http"
)

func TestF26TruncatedBodyIsNotProcessed(t *testing.T) {
	rpchttp.RegisterHandler()
	service := core.NewService()
	var mu sync.Mutex
	var seen [][]byte
	service.Use(func(ctx context.Context, request []byte, next core.NextIOHandler) ([]byte, error) {
		mu.Lock()
		seen = append(seen, append([]byte{}, request...))
		mu.Unlock()
		return next(ctx, request)
	})
	ln, err := net.Listen("tcp", "127.0.0.1:0")
	if err != nil {
		t.Fatal(err)
	}
	server := &nethttp.Server{}
	if err := service.Bind(server); err != nil {
		t.Fatal(err)
	}
	go server.Serve(ln)
	defer server.Close()
	time.Sleep(20 * time.Millisecond)
	c, err := net.Dial("tcp", ln.Addr().String())
	if err != nil {
		t.Fatal(err)
	}
	c.Write([]byte("POST / HTTP/1.1\r\nHost: x\r\nContent-Length: 20\r\n\r\nabcde"))
	c.(*net.TCPConn).CloseWrite()
	time.Sleep(200 * time.Millisecond)
	c.Close()
	mu.Lock()
	defer mu.Unlock()
	for _, s := range seen {
		t.Fatalf("a request whose body could not be read completely was handed to the service as %q (%d bytes)", s, len(s))
	}
}
