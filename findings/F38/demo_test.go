package io

// F38 (C04): decodeBigRat hands the result of readBigInt to (*big.Rat).SetInt without looking at
// it. A long-integer token that is not a number (`lx;`) yields nil, and SetInt(nil) dereferences
// it: Unmarshal of four bytes into a *big.Rat panics. (Reported by a seeding sub-agent on the clean
// tree; the obligation below reproduces it.)
//
// Replay: overlay this file as io/zz_f38_test.go; go test -run TestF38 ./io/

import (
	"math/big"
	"testing"
)

func TestF38BigRatFromAMalformedLong(t *testing.T) {
	defer func() {
		if e := recover(); e != nil {
			t.Fatalf("Unmarshal(\"lx;\", **big.Rat) panicked: %v", e)
		}
	}()
	var r *big.Rat
	if err := Unmarshal([]byte("lx;"), &r); err == nil {
		t.Fatalf("no error, value %v", r)
	}
}
