package io

// F1 (C01, C06): the pointer-decode handler registered for kind uint32 (uint32PtrDecode) calls
// decodeUint32 with the **uint32 it is given cast to *uint32: the decoded number is stored INTO
// THE POINTER WORD. A struct field or slice element of type *uint32 comes back as a wild
// pointer (0x4d for the value 77); dereferencing it crashes.
//
// Replay: overlay this file as io/zz_f1_test.go; go test -run TestF1 ./io/

import (
	"testing"
	"unsafe"
)

func TestF1Uint32PointerField(t *testing.T) {
	type S struct{ F *uint32 }
	v := uint32(77)
	data, err := Marshal(S{&v})
	if err != nil {
		t.Fatal(err)
	}
	var out S
	if err := Unmarshal(data, &out); err != nil {
		t.Fatal(err)
	}
	if addr := uintptr(unsafe.Pointer(out.F)); addr == 77 {
		t.Fatalf("%q decoded into struct{F *uint32}: F is the wild pointer %#x (the VALUE was stored in the pointer word)", data, addr)
	}
	if out.F == nil || *out.F != 77 {
		t.Fatalf("round trip lost the value")
	}
}
