package main

import (
	"context"
	"fmt"
	"os"
	"sync"
	"sync/atomic"
	"time"

	"github.com/hprose/hprose-golang/v3/rpc/plugins/limiter"
)

// Burst arrival: rate 10/s (one permit per 100ms), no burst allowance. 8 callers spin on a
// flag and call Acquire at the same instant. Sequentially the k-th caller is told to wait
// k*100ms. Admission without waiting (Acquire returns within 20ms) is allowed for at most
// burst + rate*elapsed + 1 = 2 callers.
func main() {
	worst := int64(0)
	trials := 2000
	for trial := 0; trial < trials; trial++ {
		l := limiter.NewRateLimiter(10, limiter.WithMaxPermits(0), limiter.WithTimeout(20*time.Millisecond))
		var early int64
		var wg sync.WaitGroup
		var flag int32
		var ready int32
		for g := 0; g < 8; g++ {
			wg.Add(1)
			go func() {
				defer wg.Done()
				atomic.AddInt32(&ready, 1)
				for atomic.LoadInt32(&flag) == 0 {
				}
				// admitted at once (no wait) or rejected with ErrTimeout because the wait exceeds 20ms
				if err := l.Acquire(context.Background(), 1); err == nil {
					atomic.AddInt64(&early, 1)
				}
			}()
		}
		for atomic.LoadInt32(&ready) < 8 {
		}
		atomic.StoreInt32(&flag, 1)
		wg.Wait()
		if early > worst {
			worst = early
		}
	}
	fmt.Printf("most immediate admissions among 8 simultaneous callers over %d trials: %d (allowed: 2)\n", trials, worst)
	if worst > 2 {
		fmt.Println("VIOLATION: more permits admitted than burst + rate*elapsed")
		os.Exit(1)
	}
}
