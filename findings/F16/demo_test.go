package jsonrpc

// F16 (C11, C04): the JSON-RPC client codec trusts the shape of the server's response. With two
// or more declared result types it asserts resp.Result.([]interface{}) without a check (a scalar
// result panics) and indexes context.ReturnType[i] for every element the server sent (one element
// too many panics). Both panics happen in the caller's goroutine.
//
// Replay: overlay this file as rpc/codec/jsonrpc/zz_f16_test.go; go test -run TestF16 ./rpc/codec/jsonrpc/

import (
	"reflect"
	"testing"

	"github.com/hprose/hprose-golang/v3/rpc/core"
)

func TestF16ClientDecodeTrustsTheResponseShape(t *testing.T) {
	for _, response := range []string{
		`{"jsonrpc":"2.0","id":1,"result":5}`,
		`{"jsonrpc":"2.0","id":1,"result":[1,"a",3]}`,
	} {
		func() {
			defer func() {
				if e := recover(); e != nil {
					t.Errorf("Decode(%s) panicked in the caller: %v", response, e)
				}
			}()
			cc := core.NewClientContext()
			cc.ReturnType = []reflect.Type{reflect.TypeOf(0), reflect.TypeOf("")}
			_, err := NewClientCodec(nil).Decode([]byte(response), cc)
			t.Logf("Decode(%s): err=%v", response, err)
		}()
	}
}
