package io

// F8 (C04): an object (o<index>{...}) that names a class definition that was never sent indexes
// Decoder.ref unchecked in getStructInfo.
//
// Replay: overlay this file as io/zz_f8_test.go; go test -run TestF8 ./io/

import "testing"

func TestF8ClassIndexOutOfRange(t *testing.T) {
	for _, in := range []string{"o3{}", "o-1{}", `c1"A"0{}o1{}`} {
		func() {
			defer func() {
				if e := recover(); e != nil {
					t.Errorf("Unmarshal(%q) panicked: %v", in, e)
				}
			}()
			var v interface{}
			if err := Unmarshal([]byte(in), &v); err == nil {
				t.Errorf("Unmarshal(%q): no error, value %v", in, v)
			}
		}()
	}
}
