package udp_test

// F22/F24 (C11, C12): a request or a response larger than one datagram can carry (65499 bytes).
// Before the fix: the client's sender goroutine panicked on buffer[:8+len(body)] (conn.Exit's
// recover() is ineffective, so the process died); on the server the same slice expression in
// Handler.send was recovered by catch, which ended Serve and closed the one UDP socket every
// client shares. After the fix the oversize call fails with an error and everything else keeps working.

import (
	"net"
	"strings"
	"testing"
	"time"

	"github.com/hprose/hprose-golang/v3/rpc/core"
	udp "github.com/hprose/hprose-golang/v3/rpc/udp"
)

func TestF22OversizeResponseAndRequest(t *testing.T) {
	udp.RegisterHandler()
	udp.RegisterTransport()
	service := core.NewService()
	service.AddFunction(func(n int) string { return strings.Repeat("x", n) }, "big")
	service.AddFunction(func(s string) int { return len(s) }, "size")
	addr, _ := net.ResolveUDPAddr("udp", "127.0.0.1:8493")
	server, err := net.ListenUDP("udp", addr)
	if err != nil {
		t.Fatal(err)
	}
	defer server.Close()
	if err := service.Bind(server); err != nil {
		t.Fatal(err)
	}
	time.Sleep(10 * time.Millisecond)
	client := core.NewClient("udp://127.0.0.1:8493/")
	client.Timeout = 2 * time.Second
	var proxy struct {
		Big  func(n int) (string, error)
		Size func(s string) (int, error)
	}
	client.UseService(&proxy)
	if s, err := proxy.Big(10); err != nil || len(s) != 10 {
		t.Fatalf("sentinel before: %v %d", err, len(s))
	}
	// oversize response
	if _, err := proxy.Big(70000); err == nil {
		t.Fatalf("a 70000-byte response cannot be carried by one datagram: the call must fail with an error")
	}
	if s, err := proxy.Big(10); err != nil || len(s) != 10 {
		t.Fatalf("after an oversize response the server must keep serving: %v", err)
	}
	// oversize request (before the fix: panic in the client's sender goroutine kills the process)
	if _, err := proxy.Size(strings.Repeat("y", 70000)); err == nil {
		t.Fatalf("a 70000-byte request cannot be carried by one datagram: the call must fail with an error")
	}
	if n, err := proxy.Size("abc"); err != nil || n != 3 {
		t.Fatalf("after an oversize request the client must stay usable: %v", err)
	}
}
