package io

// F12/F14/F10-string (C04, C05): the string reader trusts the declared UTF-16 length and the
// lead bytes:
//  * a 4-byte lead byte when one unit is left makes fastReadStringAsBytes run past the window
//    (slice bounds out of range, or bytes beyond the input are returned and head > tail);
//  * length*3 overflows for huge declared lengths, the fast path is taken and buf[off] runs off
//    the window;
//  * in reader mode a character that straddles two reads is completed with
//    dec.buf[dec.head : dec.head-remains] without checking that the new window has that many
//    bytes (one-byte reads: slice bounds out of range [2:1]);
//  * make([]byte, 0, utf16Length*3) allocates what the wire declares.
//
// Replay (from /repo):
//   echo '{"Replace":{"'$PWD'/io/zz_f12_test.go":"/verif/findings/F12/demo_test.go"}}' > /tmp/ov.json
//   go test -overlay /tmp/ov.json -vet=off -count=1 -timeout 60s -run TestF12 ./io/

import (
	"strings"
	"testing"
	"testing/iotest"
)

func f12(t *testing.T, name string, f func() error) {
	defer func() {
		if e := recover(); e != nil {
			t.Errorf("%s: panic: %v", name, e)
		}
	}()
	err := f()
	t.Logf("%s: err=%v", name, err)
}

func TestF12StringReader(t *testing.T) {
	f12(t, "4-byte lead, one unit declared, 3-byte window", func() error {
		var s string
		return Unmarshal([]byte("s1\"\xf0\x9f"), &s)
	})
	f12(t, "declared length 2^62 (times 3 overflows)", func() error {
		var s string
		return Unmarshal([]byte("s4611686018427387904\"abc\""), &s)
	})
	f12(t, "multi-byte characters through a one-byte reader", func() error {
		var s string
		dec := NewDecoderFromReader(iotest.OneByteReader(strings.NewReader("s7\"你好世界abc\"")))
		dec.Decode(&s)
		if dec.Error == nil && s != "你好世界abc" {
			t.Errorf("decoded %q", s)
		}
		return dec.Error
	})
	f12(t, "huge declared length from a reader", func() error {
		var s string
		dec := NewDecoderFromReader(strings.NewReader("s1000000000000\"" + strings.Repeat("x", 300)))
		dec.Decode(&s)
		return dec.Error
	})
}
