package udp

// F25 (C12): the UDP server copies `length` bytes (as declared in the header) out of a buffer
// that is reused across datagrams, without comparing with the number of bytes actually
// received. A datagram that declares more than it carries is completed with the bytes of
// the previous datagram (possibly another client's).

import (
	"bytes"
	"context"
	"net"
	"sync"
	"testing"
	"time"

	"github.com/hprose/hprose-golang/v3/rpc/core"
)

func TestF25DeclaredLongerThanReceived(t *testing.T) {
	service := core.NewService()
	var mu sync.Mutex
	var seen [][]byte
	service.Use(func(ctx context.Context, request []byte, next core.NextIOHandler) ([]byte, error) {
		mu.Lock()
		seen = append(seen, append([]byte{}, request...))
		mu.Unlock()
		return next(ctx, request)
	})
	addr, _ := net.ResolveUDPAddr("udp", "127.0.0.1:0")
	server, err := net.ListenUDP("udp", addr)
	if err != nil {
		t.Fatal(err)
	}
	defer server.Close()
	h := &Handler{Service: service}
	go h.Serve(context.Background(), server)
	time.Sleep(10 * time.Millisecond)

	secret := []byte("Cs5\"hello\"a1{s11\"secret-data\"}z")
	c1, _ := net.DialUDP("udp", nil, server.LocalAddr().(*net.UDPAddr))
	hdr := makeHeader(len(secret), 1)
	c1.Write(append(hdr[:], secret...))
	time.Sleep(50 * time.Millisecond)

	// second client: an EMPTY datagram body whose header declares len(secret) bytes
	c2, _ := net.DialUDP("udp", nil, server.LocalAddr().(*net.UDPAddr))
	hdr2 := makeHeader(len(secret), 2)
	c2.Write(hdr2[:])
	time.Sleep(100 * time.Millisecond)

	mu.Lock()
	defer mu.Unlock()
	if len(seen) >= 2 && bytes.Equal(seen[1], secret) {
		t.Fatalf("the service processed a request made of client 1's bytes for client 2's empty datagram: %q", seen[1])
	}
	for i, s := range seen[1:] {
		t.Logf("later request %d: %q", i, s)
		if len(s) != 0 {
			t.Fatalf("a datagram that carried 0 body bytes was dispatched with %d bytes", len(s))
		}
	}
}
