package reverse

// F34 (C10): with Caller.Timeout == 0, Caller.InvokeContext waits on the result channel alone and
// ignores its context: a reverse call to a provider that never answers does not return when the
// caller's context is cancelled or its deadline passes.
//
// Replay (from /repo):
//   echo '{"Replace":{"'$PWD'/rpc/plugins/reverse/zz_f34_test.go":"/verif/findings/F34/demo_test.go"}}' > /tmp/ov.json
//   go test -overlay /tmp/ov.json -vet=off -count=1 -timeout 60s -run TestF34 ./rpc/plugins/reverse/

import (
	"context"
	"testing"
	"time"

	"github.com/hprose/hprose-golang/v3/rpc/core"
)

func TestF34ContextIgnoredWithoutTimeout(t *testing.T) {
	c := NewCaller(core.NewService())
	c.Timeout = 0
	ctx, cancel := context.WithTimeout(context.Background(), 100*time.Millisecond)
	defer cancel()
	done := make(chan error, 1)
	go func() {
		_, err := c.InvokeContext(ctx, "nobody", "f", nil)
		done <- err
	}()
	select {
	case err := <-done:
		if err == nil {
			t.Fatalf("a call nobody answered returned without error")
		}
	case <-time.After(2 * time.Second):
		t.Fatalf("InvokeContext still blocked 1.9 s after its context's deadline")
	}
}
