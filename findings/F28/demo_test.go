package io

// F28 (C14): newNamedStructEncoder publishes the struct encoder (registerNamedStructEncoder)
// BEFORE its fields and class metadata are filled in, and nothing synchronises the two: a
// goroutine that encodes, at the same time, a type that nests the one under construction picks
// up the empty encoder and writes the nested struct with no class definition and no fields.
// (The decoder side takes the decoder's write lock across the same window.)
//
// The interleaving is forced through the package's own factory table: resolving the fields of
// the inner type goes through valueDecoderFactories[reflect.Map] (getFields resolves both
// handlers), where the test holds goroutine A.
//
// Replay: overlay this file as io/zz_f28_test.go; go test -count=1 -run TestF28 ./io/

import (
	"reflect"
	"sync/atomic"
	"testing"
	"time"
)

type f28Key int16
type f28Val uint8
type f28Inner struct {
	A int
	M map[f28Key]f28Val
}
type f28Outer struct {
	X f28Inner
	Y f28Inner
}

func TestF28ConcurrentFirstEncodeOfNestedStruct(t *testing.T) {
	mapType := reflect.TypeOf(map[f28Key]f28Val(nil))
	entered := make(chan struct{})
	release := make(chan struct{})
	var first int32
	orig := valueDecoderFactories[reflect.Map]
	valueDecoderFactories[reflect.Map] = func(t reflect.Type) ValueDecoder {
		if t == mapType && atomic.CompareAndSwapInt32(&first, 0, 1) {
			close(entered)
			<-release
		}
		return orig(t)
	}
	defer func() { valueDecoderFactories[reflect.Map] = orig }()

	inner := f28Inner{A: 7, M: map[f28Key]f28Val{8: 9}}
	outer := f28Outer{X: f28Inner{A: 1, M: map[f28Key]f28Val{2: 3}}, Y: f28Inner{A: 4, M: map[f28Key]f28Val{5: 6}}}

	doneA := make(chan []byte, 1)
	go func() { b, _ := Marshal(inner); doneA <- b }() // A: first use of f28Inner, held while resolving its fields
	select {
	case <-entered:
	case <-time.After(10 * time.Second):
		t.Fatal("hook was not reached")
	}
	doneB := make(chan []byte, 1)
	go func() { b, _ := Marshal(outer); doneB <- b }() // B: first use of f28Outer, which nests f28Inner
	var early []byte
	select {
	case early = <-doneB:
	case <-time.After(500 * time.Millisecond):
	}
	close(release)
	<-doneA
	if early == nil {
		early = <-doneB
	}
	alone, _ := Marshal(outer) // the same value encoded alone, everything warm
	if string(early) != string(alone) {
		t.Fatalf("encoded concurrently with the first use of the nested type:\n  %s\nencoded alone:\n  %s", early, alone)
	}
}
