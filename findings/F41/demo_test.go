package push

// F41 (C19): Deny marks a topic by storing an untyped nil in the client's topic table. send (and
// offline) read the entry back with the plain assertion value.(*MessageCache), which panics on a
// nil interface value: after a Deny, every poll of that client and every publish to any of its
// OTHER topics panics inside send, so messages accepted for the topics it is still subscribed to
// are never delivered although it keeps polling.
// obligation: rpc/plugins/push.(*Broker).send$1#typeassert:value.(*MessageCache)

import (
	"context"
	"testing"
	"time"

	"github.com/hprose/hprose-golang/v3/rpc/core"
)

func TestF41DeniedTopicDoesNotBlockTheOtherTopics(t *testing.T) {
	service := core.NewService()
	b := NewBroker(service)
	b.Timeout = 200 * time.Millisecond
	sc := core.NewServiceContext(service)
	sc.RequestHeaders().Set("id", "client1")
	ctx := core.WithContext(context.Background(), sc)

	if !b.subscribe(ctx, "news") || !b.subscribe(ctx, "ads") {
		t.Fatal("subscribe failed")
	}
	b.Deny(context.Background(), "client1", "ads")

	// a message for the topic the client is still subscribed to is accepted ...
	accepted := false
	func() {
		defer func() {
			if e := recover(); e != nil {
				t.Errorf("publishing to the other topic panicked: %v", e)
			}
		}()
		accepted = b.Unicast(context.Background(), "hello", "news", "client1", "pub")
	}()
	if !accepted {
		t.Fatal("publish to the subscribed topic was not accepted")
	}
	// ... and must reach the client's next poll
	var got map[string][]Message
	func() {
		defer func() {
			if e := recover(); e != nil {
				t.Fatalf("poll panicked: %v", e)
			}
		}()
		got = b.message(ctx)
	}()
	if len(got["news"]) != 1 || got["news"][0].Data != "hello" {
		t.Fatalf("accepted message not delivered: %v", got)
	}
	if v, ok := got["ads"]; !ok || v != nil {
		t.Errorf("the denied topic is not reported as nil: %v", got)
	}
}
