package reverse

// F18-rev (C09): Caller.InvokeContext numbers reverse calls with a 31-bit counter and registers
// the call with resultMap.Set, which overwrites whatever is registered under that number; the
// call is also queued for the provider BEFORE it is registered. A call still pending when the
// counter comes round (2^31 calls later; the test advances the counter instead of issuing them)
// loses its registration to the newest call, and the provider's answer to the OLD call is
// delivered to the NEW caller.
//
// Replay (from /repo):
//   echo '{"Replace":{"'$PWD'/rpc/plugins/reverse/zz_f18_test.go":"/verif/findings/F18rev/demo_test.go"}}' > /tmp/ov.json
//   go test -overlay /tmp/ov.json -vet=off -count=1 -timeout 60s -run TestF18 ./rpc/plugins/reverse/

import (
	"context"
	"reflect"
	"sync/atomic"
	"testing"
	"time"

	"github.com/hprose/hprose-golang/v3/rpc/core"
)

func TestF18revIndexReuseWhilePending(t *testing.T) {
	service := core.NewService()
	c := NewCaller(service)
	c.Timeout = 3 * time.Second
	// the context of a request from provider "p"
	sc := core.NewServiceContext(service)
	sc.RequestHeaders().Set("id", "p")
	pctx := core.WithContext(context.Background(), sc)
	strT := reflect.TypeOf("")

	type out struct {
		r   []interface{}
		err error
	}
	aDone := make(chan out, 1)
	go func() {
		r, err := c.InvokeContext(context.Background(), "p", "slow", nil, strT)
		aDone <- out{r, err}
	}()
	time.Sleep(100 * time.Millisecond)
	// the provider fetches the queued call (number 1) and is slow to answer it
	cc, _ := c.calls.Get("p")
	taken := cc.(*callCache).Take()
	if len(taken) != 1 {
		t.Fatalf("expected one queued call, got %d", len(taken))
	}
	slowIndex, _, _ := taken[0].Value()

	atomic.AddInt32(&c.counter, 0x7fffffff) // the state 2^31 - 1 completed calls later
	bDone := make(chan out, 1)
	go func() {
		r, err := c.InvokeContext(context.Background(), "p", "fast", nil, strT)
		bDone <- out{r, err}
	}()
	time.Sleep(100 * time.Millisecond)
	// now the provider answers the slow call
	c.end(pctx, []returnValue{newReturnValue(slowIndex, "answer-to-slow", "")})
	select {
	case b := <-bDone:
		if b.err == nil && len(b.r) == 1 && b.r[0] == "answer-to-slow" {
			t.Fatalf("caller B (request \"fast\") received %q: the answer to A's request", b.r[0])
		}
	case <-time.After(200 * time.Millisecond):
	}
	select {
	case a := <-aDone:
		if a.err != nil || len(a.r) != 1 || a.r[0] != "answer-to-slow" {
			t.Fatalf("caller A got %v %v", a.r, a.err)
		}
	case <-time.After(time.Second):
		t.Fatalf("caller A never received the provider's answer to its call")
	}
}
