package io

// F37 (C14, C03): Encoder.ResetBuffer empties the buffer but keeps `off`, the position up to
// which the buffer has been flushed to the Writer. After ResetBuffer the next values are written
// at positions below the stale `off` and Flush skips them: output is silently lost (or only a
// suffix of it is written).
//
// Replay: overlay this file as io/zz_f37_test.go; go test -run TestF37 ./io/

import (
	"bytes"
	"testing"
)

func TestF37ResetBufferKeepsFlushPosition(t *testing.T) {
	var w bytes.Buffer
	enc := NewEncoder(&w)
	if err := enc.Encode("hello world"); err != nil {
		t.Fatal(err)
	}
	first := w.String()
	enc.ResetBuffer()
	if err := enc.Encode(12345); err != nil {
		t.Fatal(err)
	}
	if got := w.String()[len(first):]; got != "i12345;" {
		t.Fatalf("after ResetBuffer, Encode(12345) wrote %q to the writer, want %q", got, "i12345;")
	}
}
