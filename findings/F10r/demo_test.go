package io

// F10-reader (C04): when the input is a reader the decoder cannot know how much is left, and it
// still allocates and loops by the declared element count before any element has arrived:
// 12 bytes from a reader ask for 24 GB.
//
// Replay: overlay this file as io/zz_f10r_test.go;
//   (ulimit -v 4000000; go test -run TestF10r -timeout 60s ./io/)   -> fatal error: out of memory

import (
	"strings"
	"testing"
)

func TestF10rCountFromAReader(t *testing.T) {
	var v []int64
	dec := NewDecoderFromReader(strings.NewReader("a3000000000{"))
	dec.Decode(&v)
	if dec.Error == nil {
		t.Errorf("no error")
	}
	if cap(v) > 1<<20 {
		t.Errorf("allocated %d elements for 12 bytes of input", cap(v))
	}
}
