#!/bin/bash
# Self-test corpus: every patch under selftest/mustfail/<PROP>-*.diff must make
# the property's quick check exit 1; every patch under selftest/benign must
# leave it at exit 0. Patches are applied to /repo's working tree and reverted
# straight afterwards (git checkout), one at a time.
# usage: selftest/run.sh [PROP ...]
cd "$(dirname "$0")/.."
export GOFLAGS=-mod=mod GOPROXY=off GOSUMDB=off GOTOOLCHAIN=local
filter="$*"
fail=0
run_one() {
  local f=$1 want=$2
  local base=$(basename "$f" .diff)
  local prop=${base%%-*}
  if [ -n "$filter" ] && ! echo " $filter " | grep -q " $prop "; then return; fi
  if [ -n "$(git -C /repo status --porcelain)" ]; then echo "repo working tree not clean (commit contract files first)"; exit 2; fi
  if ! git -C /repo apply "$PWD/$f" 2>/tmp/selftest_apply.err; then echo "APPLY-FAIL $base: $(cat /tmp/selftest_apply.err)"; fail=1; return; fi
  # the mutant must still compile
  if ! (cd /repo && go build ./... 2>/tmp/selftest_build.err); then echo "BUILD-FAIL $base: $(head -3 /tmp/selftest_build.err)"; git -C /repo checkout -- .; fail=1; return; fi
  out=$(bin/govc check -prop "$prop" -tier quick 2>&1); code=$?
  git -C /repo checkout -- .
  if [ "$code" = "$want" ]; then
    echo "ok    $base (exit $code) $(echo "$out" | grep -c '^VIOLATION') violation line(s)"
  else
    echo "WRONG $base: exit $code, wanted $want"; echo "$out" | tail -5; fail=1
  fi
}
for f in selftest/mustfail/*.diff; do [ -e "$f" ] && run_one "$f" 1; done
for f in selftest/benign/*.diff; do [ -e "$f" ] && run_one "$f" 0; done
exit $fail
