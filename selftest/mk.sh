#!/bin/bash
# usage: selftest/mk.sh <mustfail|benign> <PROP-name> <file> <python-regex-from> <to>
# creates a patch by a single textual replacement in /repo (working tree is restored)
set -e
kind=$1; name=$2; file=$3; from=$4; to=$5
cd /repo
python3 - "$file" "$from" "$to" <<'PY'
import sys,re
f,a,b=sys.argv[1:4]
s=open(f).read()
n=s.count(a)
if n!=1:
    print("pattern occurs",n,"times in",f); sys.exit(1)
open(f,'w').write(s.replace(a,b))
PY
git diff > /verif/selftest/$kind/$name.diff
git checkout -- .
echo "wrote selftest/$kind/$name.diff"
