package main

import (
	"encoding/json"
	"fmt"
	"os"
	"path/filepath"
	"sort"
	"strconv"
	"strings"
)

func seedFromEnv() int {
	if s := os.Getenv("VERIF_SEED"); s != "" {
		if n, err := strconv.Atoi(s); err == nil {
			return n
		}
	}
	return 0
}

func writeEvidence(verif, prop, tier string, e *Engine, jobs []*funcJob, obls []*Obligation, groups map[string][]*Obligation, wall float64, violations int, extra []string) {
	os.MkdirAll(filepath.Join(verif, "evidence"), 0o755)
	type oblRec struct {
		Name    string  `json:"name"`
		Kind    string  `json:"kind"`
		Backend string  `json:"backend"`
		Second  string  `json:"confirmed_by,omitempty"`
		Seconds float64 `json:"solver_s"`
		Pos     string  `json:"pos,omitempty"`
	}
	var per []oblRec
	solverTime := 0.0
	byBackend := map[string]int{}
	byKind := map[string]int{}
	for _, o := range groups["proved"] {
		be := o.Res.Solver
		if o.Struct {
			be = "structural (go/ssa analysis)"
		}
		if o.Kind == "vacuity" {
			be += " [cover: precondition satisfiable]"
		}
		per = append(per, oblRec{o.Name, o.Kind, be, o.Res.Second, round3(o.Res.Seconds), o.Pos})
		solverTime += o.Res.Seconds
		byBackend[strings.TrimSuffix(be, " (cached)")]++
		byKind[o.Kind]++
	}
	var openL, knownL, violL []string
	for _, o := range groups["open"] {
		openL = append(openL, o.Name+" ["+statusOf(o)+"]")
	}
	for _, o := range groups["known"] {
		knownL = append(knownL, o.Name)
	}
	for _, o := range groups["viol"] {
		violL = append(violL, o.Name+" ["+statusOf(o)+"]")
	}
	var funcs []string
	abstracted := map[string]map[string]int{}
	assumed := map[string]bool{}
	arith := map[string]string{}
	for _, j := range jobs {
		funcs = append(funcs, shortPkg(j.key))
		if j.vc != nil {
			if len(j.vc.notes) > 0 {
				abstracted[shortPkg(j.key)] = j.vc.notes
			}
			for a := range j.vc.assumed {
				assumed[a] = true
			}
			arith[shortPkg(j.key)] = j.vc.arith
		}
	}
	sort.Strings(funcs)
	trusted := []string{
		"go/packages + go/ssa (x/tools v0.29.0) represent /repo's source faithfully",
		"the VC semantics of DESIGN.md section 2 (memory model: one array per struct field / element type / cell type; pointers to distinct fields and to free-standing cells do not alias)",
		"SMT solvers z3 5.1.0, cvc5 1.0.x, z3 4.8.12 (portfolio; thorough tier needs two to agree on unsat)",
		"Go run-time semantics of append, copy, maps, channels, defer/recover as encoded in the generator",
	}
	var assumedL []string
	for a := range assumed {
		assumedL = append(assumedL, a)
	}
	sort.Strings(assumedL)
	mathFns := 0
	for _, m := range arith {
		if m == "math" {
			mathFns++
		}
	}
	if mathFns > 0 {
		assumedL = append(assumedL, fmt.Sprintf("machine integer arithmetic (+ - *) treated as mathematical (no wrap-around) in %d functions (arith mode 'math'); narrowing conversions and shifts are exact", mathFns))
	}
	assumedL = append(assumedL, extra...)
	var samples []interface{}
	for i, o := range groups["proved"] {
		if i >= 4 {
			break
		}
		s := map[string]interface{}{"obligation": o.Name, "kind": o.Kind}
		if o.vc != nil {
			sc := o.vc.script(o, false)
			s["smt_bytes"] = len(sc)
			s["goal"] = truncate(o.Goal, 400)
			s["path_condition"] = truncate(o.Reach, 200)
		} else if o.Struct {
			s["structural"] = o.StructMsg
		}
		if o.Src != "" {
			s["clause"] = o.Src
		}
		samples = append(samples, s)
	}
	if len(samples) == 0 {
		samples = append(samples, "no obligations were discharged in this run")
	}
	cov := map[string]interface{}{
		"obligations":              len(groups["proved"]),
		"discharged":               len(groups["proved"]),
		"checker_cmd":              fmt.Sprintf("bin/govc check -prop %s -tier %s", prop, tier),
		"trusted_base":             append(trusted, assumedL...),
		"functions_under_contract": funcs,
		"generated_total":          len(obls),
		"by_backend":               byBackend,
		"by_kind":                  byKind,
		"solver_time_s":            round3(solverTime),
		"per_obligation":           per,
		"not_proved_not_claimed":   openL,
		"known_findings":           knownL,
		"violations":               violL,
		"abstracted_instructions":  abstracted,
		"arith_mode":               arith,
		"bounded":                  []string{},
		"samples":                  samples,
		// generic fallback keys (measured)
		"evaluations":         len(obls),
		"distinct_nontrivial": len(groups["proved"]),
		"rule":                "one evaluation = one generated proof obligation sent to the solver portfolio (or a structural check over go/ssa); distinct = distinct obligation names; non-trivial = discharged by a solver/structural analysis rather than folded to true by the generator",
	}
	ev := map[string]interface{}{
		"property_id": prop,
		"tier":        tier,
		"seed":        seedFromEnv(),
		"level":       "proof",
		"coverage":    cov,
		"assumptions": nonNil(assumedL),
		"wall_s":      round3(wall),
		"violations":  violations,
	}
	b, _ := json.MarshalIndent(ev, "", " ")
	os.WriteFile(filepath.Join(verif, "evidence", prop+".json"), append(b, '\n'), 0o644)
}

func round3(f float64) float64 { return float64(int(f*1000+0.5)) / 1000 }

func truncate(s string, n int) string {
	if len(s) > n {
		return s[:n] + "…"
	}
	return s
}

// ---------------------------------------------------------------------
// replay files

type ReplayFile struct {
	Property   string            `json:"property"`
	Obligation string            `json:"obligation"`
	Kind       string            `json:"kind"`
	Function   string            `json:"function"`
	Pos        string            `json:"pos"`
	Clause     string            `json:"clause,omitempty"`
	Status     string            `json:"status"`
	Solver     string            `json:"solver"`
	SolverOut  string            `json:"solver_output"`
	Model      map[string]string `json:"model,omitempty"`
	Replay     *ReplayOutcome    `json:"replay,omitempty"`
	Script     string            `json:"smt_script_file,omitempty"`
}

type ReplayOutcome struct {
	Package   string `json:"package,omitempty"`
	Kind      string `json:"kind,omitempty"`
	Template  string `json:"template"`
	TestFile  string `json:"test_file,omitempty"`
	Ran       bool   `json:"ran"`
	Confirmed bool   `json:"confirmed"`
	Output    string `json:"output"`
}

func writeReplay(e *Engine, verif, prop string, o *Obligation) string {
	dir := filepath.Join(verif, "replays", prop)
	os.MkdirAll(dir, 0o755)
	base := filepath.Join(dir, sanitize(o.Name)+"-"+scriptHash(o.Name)[:8])
	rf := &ReplayFile{Property: prop, Obligation: o.Name, Kind: o.Kind, Function: o.Func, Pos: o.Pos, Clause: o.Src,
		Status: statusOf(o), Solver: o.Res.Solver, SolverOut: truncate(o.Res.Output, 4000)}
	if o.Struct {
		rf.SolverOut = o.StructMsg
	}
	if o.vc != nil {
		script := o.vc.script(o, true)
		os.WriteFile(base+".smt2", []byte(script), 0o644)
		rf.Script = base + ".smt2"
		if o.Res.Status == "sat" {
			// get a model
			r := solve(script, 20, false)
			if r.Status == "sat" {
				rf.Model = parseModel(r.Output)
				rf.SolverOut = truncate(r.Output, 4000)
			}
			rf.Replay = tryReplay(e, verif, o, rf)
		}
	}
	b, _ := json.MarshalIndent(rf, "", " ")
	os.WriteFile(base+".json", append(b, '\n'), 0o644)
	return base + ".json"
}

func replayConfirms(path string) bool {
	b, err := os.ReadFile(path)
	if err != nil {
		return false
	}
	var rf ReplayFile
	if json.Unmarshal(b, &rf) != nil {
		return false
	}
	return rf.Replay != nil && rf.Replay.Confirmed
}

func sanitize(s string) string {
	var sb strings.Builder
	for _, c := range s {
		if c >= 'a' && c <= 'z' || c >= 'A' && c <= 'Z' || c >= '0' && c <= '9' || c == '.' || c == '_' || c == '-' {
			sb.WriteRune(c)
		} else {
			sb.WriteByte('_')
		}
	}
	out := sb.String()
	if len(out) > 100 {
		out = out[:100]
	}
	return out
}

// parseModel extracts (define-fun name () Sort value) entries of scalar sorts.
func parseModel(out string) map[string]string {
	m := map[string]string{}
	toks := tokenize(out)
	// scan for define-fun with empty parameter list
	for i := 0; i+5 < len(toks); i++ {
		if toks[i] == "(" && toks[i+1] == "define-fun" && toks[i+3] == "(" && toks[i+4] == ")" {
			name := toks[i+2]
			j := i + 5
			sort := ""
			if toks[j] == "(" {
				d := 0
				k := j
				for ; k < len(toks); k++ {
					if toks[k] == "(" {
						d++
					} else if toks[k] == ")" {
						d--
						if d == 0 {
							break
						}
					}
				}
				sort = strings.Join(toks[j:k+1], " ")
				j = k + 1
			} else {
				sort = toks[j]
				j++
			}
			// value
			val := ""
			if j < len(toks) && toks[j] == "(" {
				d := 0
				k := j
				for ; k < len(toks); k++ {
					if toks[k] == "(" {
						d++
					} else if toks[k] == ")" {
						d--
						if d == 0 {
							break
						}
					}
				}
				val = strings.Join(toks[j:k+1], " ")
			} else if j < len(toks) {
				val = toks[j]
			}
			if sort == "Int" || sort == "Bool" || sort == "Real" {
				val = strings.ReplaceAll(val, "( - ", "(- ")
				val = strings.ReplaceAll(val, " )", ")")
				m[strings.Trim(name, "|")] = val
			}
		}
	}
	return m
}

func tokenize(s string) []string {
	var toks []string
	i := 0
	for i < len(s) {
		c := s[i]
		switch {
		case c == '(' || c == ')':
			toks = append(toks, string(c))
			i++
		case c == ' ' || c == '\n' || c == '\t' || c == '\r':
			i++
		case c == '|':
			j := i + 1
			for j < len(s) && s[j] != '|' {
				j++
			}
			toks = append(toks, s[i:j+1])
			i = j + 1
		case c == '"':
			j := i + 1
			for j < len(s) && s[j] != '"' {
				j++
			}
			toks = append(toks, s[i:j+1])
			i = j + 1
		case c == ';':
			for i < len(s) && s[i] != '\n' {
				i++
			}
		default:
			j := i
			for j < len(s) && !strings.ContainsRune("() \n\t\r", rune(s[j])) {
				j++
			}
			toks = append(toks, s[i:j])
			i = j
		}
	}
	return toks
}

func modelInt(m map[string]string, name string) (int64, bool) {
	v, ok := m[name]
	if !ok {
		return 0, false
	}
	n, ok := isSmallConst(strings.TrimSpace(v))
	return n, ok
}

func nonNil(l []string) []string {
	if l == nil {
		return []string{}
	}
	return l
}
