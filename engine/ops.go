package main

// Integer / boolean / float operators with Go semantics over mathematical
// Ints (arith modes: math = results not wrapped, assumption recorded;
// wrap = results reduced modulo 2^n; exact = overflow is an obligation).

import (
	"go/constant"
	"go/token"
	"go/types"
	"math/big"
	"strconv"
	"strings"
)

func isSmallConst(t Term) (int64, bool) {
	if strings.HasPrefix(t, "(- ") && strings.HasSuffix(t, ")") {
		n, err := strconv.ParseInt(t[3:len(t)-1], 10, 64)
		if err == nil {
			return -n, true
		}
		return 0, false
	}
	n, err := strconv.ParseInt(t, 10, 64)
	if err != nil {
		return 0, false
	}
	return n, true
}

func isBigConst(t Term) (*big.Int, bool) {
	s := t
	neg := false
	if strings.HasPrefix(t, "(- ") && strings.HasSuffix(t, ")") {
		s = t[3 : len(t)-1]
		neg = true
	}
	if s == "" || strings.ContainsAny(s, " ()") {
		return nil, false
	}
	n, ok := new(big.Int).SetString(s, 10)
	if !ok {
		return nil, false
	}
	if neg {
		n.Neg(n)
	}
	return n, true
}

func bigTerm(n *big.Int) Term {
	if n.Sign() < 0 {
		return "(- " + new(big.Int).Neg(n).String() + ")"
	}
	return n.String()
}

func iAdd(a, b Term) Term {
	if x, ok := isBigConst(a); ok {
		if y, ok := isBigConst(b); ok {
			return bigTerm(new(big.Int).Add(x, y))
		}
		if x.Sign() == 0 {
			return b
		}
	}
	if y, ok := isBigConst(b); ok && y.Sign() == 0 {
		return a
	}
	return "(+ " + a + " " + b + ")"
}

func iSub(a, b Term) Term {
	if y, ok := isBigConst(b); ok {
		if x, ok := isBigConst(a); ok {
			return bigTerm(new(big.Int).Sub(x, y))
		}
		if y.Sign() == 0 {
			return a
		}
	}
	return "(- " + a + " " + b + ")"
}

func iMul(a, b Term) Term {
	if x, ok := isBigConst(a); ok {
		if y, ok := isBigConst(b); ok {
			return bigTerm(new(big.Int).Mul(x, y))
		}
		if x.Cmp(big.NewInt(1)) == 0 {
			return b
		}
	}
	if y, ok := isBigConst(b); ok && y.Cmp(big.NewInt(1)) == 0 {
		return a
	}
	return "(* " + a + " " + b + ")"
}

func iNeg(a Term) Term {
	if x, ok := isBigConst(a); ok {
		return bigTerm(new(big.Int).Neg(x))
	}
	return "(- " + a + ")"
}

// wrap x into the range of integer type t
func wrapTo(t types.Type, x Term) Term {
	bits, signed, ok := intBits(t)
	if !ok {
		return x
	}
	if c, ok := isBigConst(x); ok {
		m := new(big.Int).Lsh(big.NewInt(1), uint(bits))
		r := new(big.Int).Mod(c, m)
		if signed {
			h := new(big.Int).Lsh(big.NewInt(1), uint(bits-1))
			if r.Cmp(h) >= 0 {
				r.Sub(r, m)
			}
		}
		return bigTerm(r)
	}
	if !signed {
		return "(mod " + x + " " + pow2[bits] + ")"
	}
	return "(- (mod (+ " + x + " " + pow2[bits-1] + ") " + pow2[bits] + ") " + pow2[bits-1] + ")"
}

func inRange(t types.Type, x Term) Term {
	lo, hi, ok := intRange(t)
	if !ok {
		return "true"
	}
	return "(and (<= " + sBigStr(lo) + " " + x + ") (<= " + x + " " + sBigStr(hi) + "))"
}

// truncated division (Go) over Ints
func tdiv(a, b Term, unsigned bool) Term {
	if unsigned {
		return "(div " + a + " " + b + ")"
	}
	if y, ok := isBigConst(b); ok && y.Sign() > 0 {
		return "(ite (>= " + a + " 0) (div " + a + " " + b + ") (- (div (- " + a + ") " + b + ")))"
	}
	return "(ite (>= " + a + " 0) (ite (> " + b + " 0) (div " + a + " " + b + ") (- (div " + a + " (- " + b + ")))) " +
		"(ite (> " + b + " 0) (- (div (- " + a + ") " + b + ")) (div (- " + a + ") (- " + b + "))))"
}

func trem(a, b Term, unsigned bool) Term {
	if unsigned {
		return "(mod " + a + " " + b + ")"
	}
	if y, ok := isBigConst(b); ok && y.Sign() > 0 {
		return "(ite (>= " + a + " 0) (mod " + a + " " + b + ") (- (mod (- " + a + ") " + b + ")))"
	}
	return "(- " + a + " (* " + b + " " + tdiv(a, b, false) + "))"
}

// x & mask for a non-negative constant mask; exact for two's-complement x
func andConst(x Term, mask *big.Int) Term {
	if mask.Sign() == 0 {
		return "0"
	}
	var parts []Term
	n := mask.BitLen()
	i := 0
	for i < n {
		if mask.Bit(i) == 0 {
			i++
			continue
		}
		j := i
		for j < n && mask.Bit(j) == 1 {
			j++
		}
		// bits [i,j)
		t := x
		if i > 0 {
			t = "(div " + t + " " + pow2[i] + ")"
		}
		t = "(mod " + t + " " + pow2[j-i] + ")"
		if i > 0 {
			t = "(* " + t + " " + pow2[i] + ")"
		}
		parts = append(parts, t)
		i = j
	}
	if len(parts) == 1 {
		return parts[0]
	}
	return "(+ " + strings.Join(parts, " ") + ")"
}

func constTerm(c constant.Value, t types.Type) (Value, bool) {
	if c == nil {
		return zeroValue(t), true
	}
	switch c.Kind() {
	case constant.Bool:
		return Value{C: []Term{sBool(constant.BoolVal(c))}}, true
	case constant.Int:
		if b, ok := t.Underlying().(*types.Basic); ok && b.Info()&types.IsFloat != 0 {
			return Value{C: []Term{c.ExactString() + ".0"}}, true
		}
		bi, ok := new(big.Int).SetString(c.ExactString(), 10)
		if !ok {
			return Value{}, false
		}
		return Value{C: []Term{bigTerm(bi)}}, true
	case constant.Float:
		r := constant.ToFloat(c)
		num := constant.Num(r)
		den := constant.Denom(r)
		if num.Kind() == constant.Int && den.Kind() == constant.Int {
			n, _ := new(big.Int).SetString(num.ExactString(), 10)
			d, _ := new(big.Int).SetString(den.ExactString(), 10)
			if n != nil && d != nil {
				if b, ok := t.Underlying().(*types.Basic); ok && b.Info()&types.IsInteger != 0 {
					q := new(big.Int).Quo(n, d)
					return Value{C: []Term{bigTerm(q)}}, true
				}
				neg := n.Sign() < 0
				if neg {
					n.Neg(n)
				}
				s := "(/ " + n.String() + ".0 " + d.String() + ".0)"
				if neg {
					s = "(- " + s + ")"
				}
				return Value{C: []Term{s}}, true
			}
		}
		return Value{}, false
	}
	return Value{}, false
}

func isUnsigned(t types.Type) bool {
	b, ok := t.Underlying().(*types.Basic)
	return ok && b.Info()&types.IsUnsigned != 0
}

func isInteger(t types.Type) bool {
	b, ok := t.Underlying().(*types.Basic)
	return ok && b.Info()&types.IsInteger != 0
}

func isFloat(t types.Type) bool {
	b, ok := t.Underlying().(*types.Basic)
	return ok && b.Info()&types.IsFloat != 0
}

func isStringT(t types.Type) bool {
	b, ok := t.Underlying().(*types.Basic)
	return ok && b.Info()&types.IsString != 0
}

func isBoolT(t types.Type) bool {
	b, ok := t.Underlying().(*types.Basic)
	return ok && b.Info()&types.IsBoolean != 0
}

// binop computes a Go binary operation on scalar ints in Int mode.
// Returns the term and an optional overflow-freedom condition.
func (vc *VC) intBinop(op token.Token, a, b Term, t types.Type, bt types.Type) (res Term, noOvf Term) {
	noOvf = "true"
	uns := isUnsigned(t)
	wrap := func(x Term) Term {
		switch vc.arith {
		case "wrap":
			return wrapTo(t, x)
		case "exact":
			noOvf = inRange(t, x)
			return x
		}
		// math: treated as mathematical; for unsigned subtraction that can go
		// negative we still wrap, since code relies on it rarely but soundness matters
		return x
	}
	switch op {
	case token.ADD:
		return wrap(iAdd(a, b)), noOvf
	case token.SUB:
		return wrap(iSub(a, b)), noOvf
	case token.MUL:
		return wrap(iMul(a, b)), noOvf
	case token.QUO:
		return tdiv(a, b, uns), noOvf
	case token.REM:
		return trem(a, b, uns), noOvf
	case token.AND:
		if m, ok := isBigConst(b); ok && m.Sign() >= 0 {
			return andConst(a, m), noOvf
		}
		if m, ok := isBigConst(a); ok && m.Sign() >= 0 {
			return andConst(b, m), noOvf
		}
		vc.declareFun("bit_and", []string{"Int", "Int"}, "Int")
		vc.note("bitwise & of two non-constant operands: uninterpreted")
		return sApp("bit_and", a, b), noOvf
	case token.OR:
		if m, ok := isBigConst(b); ok && m.Sign() >= 0 {
			return iSub(iAdd(a, b), andConst(a, m)), noOvf
		}
		if m, ok := isBigConst(a); ok && m.Sign() >= 0 {
			return iSub(iAdd(a, b), andConst(b, m)), noOvf
		}
		vc.declareFun("bit_or", []string{"Int", "Int"}, "Int")
		vc.note("bitwise | of two non-constant operands: uninterpreted")
		return sApp("bit_or", a, b), noOvf
	case token.XOR:
		if m, ok := isBigConst(b); ok && m.Sign() >= 0 {
			// a ^ m = (a | m) - (a & m)
			and := andConst(a, m)
			return iSub(iSub(iAdd(a, b), and), and), noOvf
		}
		vc.declareFun("bit_xor", []string{"Int", "Int"}, "Int")
		vc.note("bitwise ^ of two non-constant operands: uninterpreted")
		return sApp("bit_xor", a, b), noOvf
	case token.AND_NOT:
		if m, ok := isBigConst(b); ok && m.Sign() >= 0 {
			return iSub(a, andConst(a, m)), noOvf
		}
		vc.declareFun("bit_andnot", []string{"Int", "Int"}, "Int")
		vc.note("bitwise &^ of two non-constant operands: uninterpreted")
		return sApp("bit_andnot", a, b), noOvf
	case token.SHL:
		if k, ok := isSmallConst(b); ok && k >= 0 && k < 64 {
			// bits shifted out are lost: always reduce modulo the width
			return wrapTo(t, iMul(a, pow2[k])), noOvf
		}
		vc.declareFun("shl", []string{"Int", "Int"}, "Int")
		vc.note("<< by a non-constant amount: uninterpreted")
		return sApp("shl", a, b), noOvf
	case token.SHR:
		if k, ok := isSmallConst(b); ok && k >= 0 && k < 64 {
			return "(div " + a + " " + pow2[k] + ")", noOvf
		}
		vc.declareFun("shr", []string{"Int", "Int"}, "Int")
		vc.note(">> by a non-constant amount: uninterpreted")
		return sApp("shr", a, b), noOvf
	}
	return "", noOvf
}

func cmpOp(op token.Token) string {
	switch op {
	case token.LSS:
		return "<"
	case token.LEQ:
		return "<="
	case token.GTR:
		return ">"
	case token.GEQ:
		return ">="
	}
	return ""
}
