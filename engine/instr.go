package main

import (
	"os"
	"fmt"
	"go/ast"
	"go/constant"
	"go/token"
	"go/types"
	"math/big"
	"strconv"

	"golang.org/x/tools/go/ssa"
)

func strconvUnquote(s string) (string, error) { return strconv.Unquote(s) }

func isIndexNode(n ast.Node) bool { _, ok := n.(*ast.IndexExpr); return ok }
func isSliceNode(n ast.Node) bool { _, ok := n.(*ast.SliceExpr); return ok }
func isCallNode(n ast.Node) bool  { _, ok := n.(*ast.CallExpr); return ok }
func isBinNode(n ast.Node) bool   { _, ok := n.(*ast.BinaryExpr); return ok }
func isAnyExpr(n ast.Node) bool   { _, ok := n.(ast.Expr); return ok }

func (fr *Frame) implicit(st *State, kind string, goal Term, pos token.Pos, want func(ast.Node) bool, fallback string) {
	if fr.dry > 0 {
		fr.vc.assume(st, goal)
		return
	}
	name := fr.srcText(pos, want)
	if name == "" {
		name = fallback
	}
	if fr.parent != nil {
		name = funcKey(fr.fn) + ":" + name
	}
	if c := fr.vc.contract; c != nil && c.Flags["bounds"] == "panic" {
		switch kind {
		case "index", "slice", "make", "div", "nilmap":
			// precise semantics instead of an obligation: the operation panics when its check
			// fails (for functions that recover on purpose; `nopanic` then decides)
			okb := fr.vc.defineBool("safe.ok", goal)
			ps := st.clone()
			ps.reach = sAnd(st.reach, sNot(okb))
			fr.addPanic(ps)
			st.reach = sAnd(st.reach, okb)
			return
		}
	}
	fr.vc.oblige(st, kind, name, goal, pos, "")
}

func (fr *Frame) execInstr(ins ssa.Instruction, st *State) error {
	vc := fr.vc
	switch t := ins.(type) {
	case *ssa.DebugRef:
		return nil
	case *ssa.Alloc:
		pt := t.Type().(*types.Pointer).Elem()
		esc := fr.allocEscapes(t, map[ssa.Value]bool{})
		a := vc.newAlloc(st, pt, esc)
		p := Value{C: []Term{a.ref}}
		if _, isS := isStruct(pt); !isS {
			if _, isA := isArray(pt); !isA {
				p.Sh = &Shape{Kind: ShCell, Key: "C." + typeKey(pt), Base: a.ref, Typ: pt}
			}
		}
		fr.vals[t] = p
		vc.store(st, p, pt, zeroValue(pt))
		return nil
	case *ssa.Store:
		addr := fr.val(t.Addr)
		pt := t.Addr.Type().Underlying().(*types.Pointer).Elem()
		fr.nilCheck(st, t.Addr, addr, t.Pos())
		sv := fr.val(t.Val)
		// a reference stored into memory other than a private local makes its object reachable
		// by code we do not execute
		private := false
		if al, ok := t.Addr.(*ssa.Alloc); ok {
			for _, ai := range vc.allocs {
				if ai.ref == fr.val(al).C[0] && !ai.escaped {
					private = true
				}
			}
		}
		if !private {
			fr.escapeArgs([]Value{sv})
		}
		vc.store(st, addr, pt, sv)
		return nil
	case *ssa.UnOp:
		return fr.execUnOp(t, st)
	case *ssa.BinOp:
		return fr.execBinOp(t, st)
	case *ssa.FieldAddr:
		x := fr.val(t.X)
		stt := t.X.Type().Underlying().(*types.Pointer).Elem()
		fr.vals[t] = vc.fieldPtr(x, stt, t.Field)
		fr.guardCheck(t, x, stt, st)
		return nil
	case *ssa.Field:
		x := fr.val(t.X)
		s, _ := isStruct(t.X.Type())
		lo, hi := fieldRange(s, t.Field)
		fr.vals[t] = Value{C: x.C[lo:hi]}
		return nil
	case *ssa.IndexAddr:
		x := fr.val(t.X)
		idx := fr.val(t.Index).C[0]
		switch xt := t.X.Type().Underlying().(type) {
		case *types.Slice:
			fr.implicit(st, "index", sAnd("(<= 0 "+idx+")", "(< "+idx+" "+x.C[2]+")"), t.Pos(), isIndexNode, "index "+t.Name())
			fr.vals[t] = vc.elemPtr(x.C[0], iAdd(x.C[1], idx), xt.Elem())
		case *types.Pointer:
			at := xt.Elem().Underlying().(*types.Array)
			fr.implicit(st, "index", sAnd("(<= 0 "+idx+")", "(< "+idx+" "+sInt(at.Len())+")"), t.Pos(), isIndexNode, "index "+t.Name())
			fr.vals[t] = vc.elemPtr(x.C[0], idx, at.Elem())
		default:
			return fmt.Errorf("IndexAddr on %s", t.X.Type())
		}
		return nil
	case *ssa.Index:
		x := fr.val(t.X)
		idx := fr.val(t.Index).C[0]
		switch xt := t.X.Type().Underlying().(type) {
		case *types.Array:
			fr.implicit(st, "index", sAnd("(<= 0 "+idx+")", "(< "+idx+" "+sInt(xt.Len())+")"), t.Pos(), isIndexNode, "index "+t.Name())
			cs := comps(xt.Elem())
			out := Value{C: make([]Term, len(cs))}
			for i := range cs {
				out.C[i] = sSel(x.C[i], idx)
			}
			fr.vals[t] = out
		case *types.Basic: // string
			fr.implicit(st, "index", sAnd("(<= 0 "+idx+")", "(< "+idx+" "+x.C[2]+")"), t.Pos(), isIndexNode, "index "+t.Name())
			m := vc.get(st, "S.byte", "(Array Int (Array Int Int))")
			b := sSel(sSel(m, x.C[0]), iAdd(x.C[1], idx))
			b = vc.define("strbyte", "Int", b)
			vc.assumeAlways(sAnd("(<= 0 "+b+")", "(<= "+b+" 255)"))
			fr.vals[t] = Value{C: []Term{b}}
		default:
			fr.vals[t] = fr.abstractValue(t, st, "Index on "+t.X.Type().String())
		}
		return nil
	case *ssa.Slice:
		return fr.execSlice(t, st)
	case *ssa.Phi:
		return nil
	case *ssa.Extract:
		tp := t.Tuple.Type().(*types.Tuple)
		lo, hi := tupleRange(tp, t.Index)
		tv := fr.val(t.Tuple)
		fr.vals[t] = Value{C: tv.C[lo:hi]}
		return nil
	case *ssa.Call:
		res, err := fr.execCall(t.Common(), st, t, false)
		if err != nil {
			return err
		}
		fr.vals[t] = res
		return nil
	case *ssa.Defer:
		// evaluate the operands now (they are SSA values: immutable), register
		fr.defers = append(fr.defers, t)
		st.deferOn[t] = "true"
		return nil
	case *ssa.RunDefers:
		return fr.runDefers(st, false)
	case *ssa.Go:
		vc.note("go statement: the new goroutine's effects are not part of this VC (its body is verified separately where it has a contract)")
		sp := vc.get(st, "ghost.spawned", "Int")
		vc.set(st, "ghost.spawned", "Int", iAdd(sp, "1"))
		var gargs []Value
		for _, a := range t.Call.Args {
			gargs = append(gargs, fr.val(a))
		}
		if mc, ok := t.Call.Value.(*ssa.MakeClosure); ok {
			cfn := mc.Fn.(*ssa.Function)
			for i, b := range mc.Bindings {
				if i < len(cfn.FreeVars) && freeVarReadOnly(cfn.FreeVars[i], map[ssa.Value]bool{}) {
					continue // the goroutine only reads this variable
				}
				gargs = append(gargs, fr.val(b))
			}
		}
		fr.escapeArgs(gargs)
		// starting a goroutine must establish the precondition of the function it runs
		if callee := t.Call.StaticCallee(); callee != nil && fr.dry == 0 {
			if c := vc.eng.contractFor(callee); c != nil && len(c.Requires) > 0 {
				env := map[string]bound{}
				names := contractParamNames(c, callee, callee.Signature, callee.Signature.Recv() != nil)
				for i, n := range names {
					if i < len(t.Call.Args) {
						env[n] = bound{fr.val(t.Call.Args[i]), t.Call.Args[i].Type()}
					}
				}
				if mc, ok := t.Call.Value.(*ssa.MakeClosure); ok {
					for i, fv := range callee.FreeVars {
						if i < len(mc.Bindings) {
							pt := fv.Type().(*types.Pointer).Elem()
							env[fv.Name()] = bound{vc.load(st, fr.val(mc.Bindings[i]), pt), pt}
						}
					}
				}
				pkg := vc.eng.pkgTypes(c.Pkg)
				for _, r := range c.Requires {
					v, sks, err := fr.evalInGoal(r.Text, pkg, env, st, st)
					if err != nil {
						return fmt.Errorf("%s:%d: %v", r.File, r.Line, err)
					}
					nm := "go:" + shortName(callee.String()) + ":" + c.clauseName(r)
					if fr.parent != nil {
						nm = funcKey(fr.fn) + ":" + nm
					}
					vc.obligeHinted(st, "pre", nm, v.C[0], sks, t.Pos(), r.Text)
				}
			}
		}
		return nil
	case *ssa.MakeClosure:
		id := vc.fresh("closure."+t.Fn.Name(), "Int")
		vc.assumeAlways("(> " + id + " 0)")
		var bs []Value
		for _, b := range t.Bindings {
			bs = append(bs, fr.val(b))
		}
		vc.closures[id] = &closureInfo{fn: t.Fn.(*ssa.Function), bindings: bs}
		fr.vals[t] = Value{C: []Term{id}}
		return nil
	case *ssa.MakeInterface:
		fr.vals[t] = vc.makeIface(fr.val(t.X), t.X.Type())
		return nil
	case *ssa.TypeAssert:
		return fr.execTypeAssert(t, st)
	case *ssa.ChangeInterface:
		fr.vals[t] = fr.val(t.X)
		return nil
	case *ssa.ChangeType:
		v := fr.val(t.X)
		fr.vals[t] = Value{C: v.C, Sh: v.Sh}
		return nil
	case *ssa.Convert:
		return fr.execConvert(t, st)
	case *ssa.MakeSlice:
		et := t.Type().Underlying().(*types.Slice).Elem()
		ln := fr.val(t.Len).C[0]
		cp := fr.val(t.Cap).C[0]
		fr.implicit(st, "make", sAnd("(<= 0 "+ln+")", "(<= "+ln+" "+cp+")"), t.Pos(), isCallNode, "make "+t.Name())
		if fr.parent == nil && fr.contract != nil && len(fr.contract.AtMake) > 0 && fr.dry == 0 {
			// allocation bounds: `atmake` clauses of the function under verification, at each make
			for _, cl := range fr.contract.AtMake {
				fr.evalPoint = t.Block()
				g, sks, err := fr.evalGoal(cl, st, fr.entry, map[string]bound{"makelen": {Value{C: []Term{ln}}, types.Typ[types.Int]}, "makecap": {Value{C: []Term{cp}}, types.Typ[types.Int]}})
				fr.evalPoint = nil
				if err != nil {
					return fmt.Errorf("%s:%d: %v", cl.File, cl.Line, err)
				}
				name := fr.srcText(t.Pos(), isCallNode)
				if name == "" {
					name = "make " + t.Name()
				}
				fr.vc.obligeHinted(st, "atmake", fr.contract.clauseName(cl)+":"+name, g, sks, t.Pos(), cl.Text)
			}
		}
		// a fresh backing array: private until it is handed to code we do not execute
		a := vc.newAlloc(st, types.NewArray(et, 0), false)
		// zero contents
		ek := "M." + typeKey(et)
		if _, isS := isStruct(et); !isS {
			for _, c := range comps(et) {
				srt := "(Array Int (Array Int " + c.Sort + "))"
				m := vc.get(st, ek+c.Suffix, srt)
				vc.set(st, ek+c.Suffix, srt, sStore(m, a.ref, zeroTerm("(Array Int "+c.Sort+")")))
			}
		}
		fr.vals[t] = Value{C: []Term{a.ref, "0", ln, cp}}
		return nil
	case *ssa.MakeMap:
		a := vc.newAlloc(st, t.Type(), true)
		fr.vals[t] = Value{C: []Term{a.ref}}
		fr.mapInit(st, t.Type(), a.ref)
		return nil
	case *ssa.MakeChan:
		a := vc.newAlloc(st, t.Type(), true)
		fr.vals[t] = Value{C: []Term{a.ref}}
		sz := fr.val(t.Size).C[0]
		capA := vc.get(st, "ghost.chancap", "(Array Int Int)")
		vc.set(st, "ghost.chancap", "(Array Int Int)", sStore(capA, a.ref, sz))
		lenA := vc.get(st, "ghost.chanlen", "(Array Int Int)")
		vc.set(st, "ghost.chanlen", "(Array Int Int)", sStore(lenA, a.ref, "0"))
		return nil
	case *ssa.MapUpdate:
		return fr.execMapUpdate(t, st)
	case *ssa.Lookup:
		return fr.execLookup(t, st)
	case *ssa.Range:
		a := vc.newAlloc(st, types.Typ[types.Int], false)
		fr.vals[t] = Value{C: []Term{a.ref}}
		it := vc.get(st, "ghost.rangeit", "(Array Int Int)")
		vc.set(st, "ghost.rangeit", "(Array Int Int)", sStore(it, a.ref, "0"))
		return nil
	case *ssa.Next:
		v := vc.freshValue(fr.vname(t), t.Type(), st)
		fr.vals[t] = v
		if rg, ok := t.Iter.(*ssa.Range); ok {
			if _, isMap := rg.X.Type().Underlying().(*types.Map); isMap {
				// a map range visits each of the len(m) entries once (no insertions during the loop assumed)
				id := fr.val(rg).C[0]
				it := vc.get(st, "ghost.rangeit", "(Array Int Int)")
				cn := vc.get(st, mapFam(rg.X.Type())+".count", "(Array Int Int)")
				m := fr.val(rg.X).C[0]
				n := sIte(sEq(m, "0"), "0", sSel(cn, m))
				vc.assume(st, sEq(v.C[0], "(< "+sSel(it, id)+" "+n+")"))
				vc.set(st, "ghost.rangeit", "(Array Int Int)", sStore(it, id, sIte(v.C[0], iAdd(sSel(it, id), "1"), sSel(it, id))))
				vc.assumed["range over a map visits len(m) entries (keys/values abstracted, no insertion during the loop)"] = true
				return nil
			}
		}
		vc.note("range over string: iteration abstracted")
		return nil
	case *ssa.Select:
		return fr.execSelect(t, st)
	case *ssa.Send:
		return fr.execSend(t, st)
	case *ssa.SliceToArrayPointer, *ssa.MultiConvert:
		fr.vals[t.(ssa.Value)] = fr.abstractValue(t.(ssa.Value), st, fmt.Sprintf("%T", t))
		return nil
	}
	if v, ok := ins.(ssa.Value); ok {
		fr.vals[v] = fr.abstractValue(v, st, fmt.Sprintf("%T", ins))
		return nil
	}
	vc.note(fmt.Sprintf("instruction not modelled: %T", ins))
	return nil
}

func (fr *Frame) abstractValue(v ssa.Value, st *State, why string) Value {
	fr.vc.note("abstracted (fresh value): " + why)
	return fr.vc.freshValue(fr.vname(v), v.Type(), st)
}

func (fr *Frame) nilCheck(st *State, pv ssa.Value, p Value, pos token.Pos) {
	// only checked where a contract asks for it (flag nilcheck); pointer receivers and
	// freshly allocated objects are the common case and a nil dereference is a crash, not
	// a silent wrong answer.
	if fr.vc.contract == nil || fr.vc.contract.Flags["nilcheck"] == "" {
		return
	}
	switch pv.(type) {
	case *ssa.Alloc, *ssa.FieldAddr, *ssa.IndexAddr, *ssa.Global:
		return
	}
	fr.implicit(st, "nil", sNot(sEq(p.C[0], "0")), pos, isAnyExpr, "deref "+pv.Name())
}

func (fr *Frame) execUnOp(t *ssa.UnOp, st *State) error {
	vc := fr.vc
	x := fr.val(t.X)
	switch t.Op {
	case token.MUL: // load
		pt := t.X.Type().Underlying().(*types.Pointer).Elem()
		fr.nilCheck(st, t.X, x, t.Pos())
		fr.vals[t] = vc.load(st, x, pt)
	case token.NOT:
		fr.vals[t] = Value{C: []Term{sNot(x.C[0])}}
	case token.SUB:
		if isFloat(t.Type()) {
			fr.vals[t] = Value{C: []Term{"(- " + x.C[0] + ")"}}
		} else if isInteger(t.Type()) {
			r := iNeg(x.C[0])
			if vc.arith == "wrap" || isUnsigned(t.Type()) {
				r = wrapTo(t.Type(), r)
			}
			fr.vals[t] = Value{C: []Term{r}}
		} else {
			fr.vals[t] = fr.abstractValue(t, st, "unary - on "+t.Type().String())
		}
	case token.XOR: // ^x
		if bits, signed, ok := intBits(t.Type()); ok {
			if signed {
				fr.vals[t] = Value{C: []Term{iSub(iNeg(x.C[0]), "1")}}
			} else {
				fr.vals[t] = Value{C: []Term{iSub(iSub(pow2[bits], "1"), x.C[0])}}
			}
		} else {
			fr.vals[t] = fr.abstractValue(t, st, "^ on "+t.Type().String())
		}
	case token.ARROW:
		return fr.execRecv(t, st)
	default:
		fr.vals[t] = fr.abstractValue(t, st, "unop "+t.Op.String())
	}
	return nil
}

func (fr *Frame) execBinOp(t *ssa.BinOp, st *State) error {
	vc := fr.vc
	x := fr.val(t.X)
	y := fr.val(t.Y)
	xt := t.X.Type()
	switch t.Op {
	case token.EQL, token.NEQ:
		eq := vc.valuesEqual(x, y, xt, t.Y.Type())
		if t.Op == token.NEQ {
			eq = sNot(eq)
		}
		fr.vals[t] = Value{C: []Term{eq}}
		return nil
	case token.LSS, token.LEQ, token.GTR, token.GEQ:
		if isStringT(xt) {
			vc.declareFun("str_lt", []string{"Int", "Int"}, "Bool")
			vc.note("string ordering: uninterpreted")
			fr.vals[t] = Value{C: []Term{vc.fresh("strcmp", "Bool")}}
			return nil
		}
		fr.vals[t] = Value{C: []Term{"(" + cmpOp(t.Op) + " " + x.C[0] + " " + y.C[0] + ")"}}
		return nil
	}
	rt := t.Type()
	switch {
	case isInteger(rt) && (t.Op == token.OR || t.Op == token.XOR) && disjointBits(t.X, t.Y):
		// operands occupy disjoint bit ranges: | and ^ are +
		fr.vals[t] = Value{C: []Term{vc.define(fr.vname(t), "Int", iAdd(x.C[0], y.C[0]))}}
	case isInteger(rt):
		if t.Op == token.QUO || t.Op == token.REM {
			fr.implicit(st, "div", sNot(sEq(y.C[0], "0")), t.Pos(), isBinNode, "div "+t.Name())
		}
		r, noOvf := vc.intBinop(t.Op, x.C[0], y.C[0], rt, t.Y.Type())
		if r == "" {
			fr.vals[t] = fr.abstractValue(t, st, "int binop "+t.Op.String())
			return nil
		}
		if noOvf != "true" {
			fr.implicit(st, "ovf", noOvf, t.Pos(), isBinNode, "ovf "+t.Name())
		}
		fr.vals[t] = Value{C: []Term{vc.define(fr.vname(t), "Int", r)}}
	case isFloat(rt):
		var op string
		switch t.Op {
		case token.ADD:
			op = "+"
		case token.SUB:
			op = "-"
		case token.MUL:
			op = "*"
		case token.QUO:
			op = "/"
		}
		if op == "" {
			fr.vals[t] = fr.abstractValue(t, st, "float binop "+t.Op.String())
			return nil
		}
		vc.assumed["float arithmetic treated as exact real arithmetic"] = true
		fr.vals[t] = Value{C: []Term{"(" + op + " " + x.C[0] + " " + y.C[0] + ")"}}
	case isBoolT(rt):
		switch t.Op {
		case token.AND, token.LAND:
			fr.vals[t] = Value{C: []Term{sAnd(x.C[0], y.C[0])}}
		case token.OR, token.LOR:
			fr.vals[t] = Value{C: []Term{sOr(x.C[0], y.C[0])}}
		default:
			fr.vals[t] = fr.abstractValue(t, st, "bool binop "+t.Op.String())
		}
	case isStringT(rt) && t.Op == token.ADD:
		// concatenation: fresh string of the combined length
		v := vc.freshValue(fr.vname(t), rt, st)
		vc.assume(st, sEq(v.C[2], iAdd(x.C[2], y.C[2])))
		vc.note("string concatenation: contents abstracted, length kept")
		fr.vals[t] = v
	default:
		fr.vals[t] = fr.abstractValue(t, st, "binop "+t.Op.String()+" on "+rt.String())
	}
	return nil
}

// equality of two Go values of (comparable) type t
func (vc *VC) valuesEqual(x, y Value, xt, yt types.Type) Term {
	if isStringT(xt) {
		return sAnd(sEq(x.C[2], y.C[2]), sEq(vc.strId(x), vc.strId(y)))
	}
	if _, ok := xt.Underlying().(*types.Interface); ok {
		if _, ok2 := yt.Underlying().(*types.Interface); !ok2 {
			// comparison iface == concrete: ssa inserts MakeInterface, so not reached
		}
		// comparison with nil: typ only
		if y.C[0] == "0" {
			return sEq(x.C[0], "0")
		}
		if x.C[0] == "0" {
			return sEq(y.C[0], "0")
		}
		return sAnd(sEq(x.C[0], y.C[0]), sEq(x.C[1], y.C[1]))
	}
	if _, ok := xt.Underlying().(*types.Slice); ok {
		// only comparison with nil is legal
		if y.C[0] == "0" {
			return sEq(x.C[0], "0")
		}
		return sEq(y.C[0], "0")
	}
	var eqs []Term
	for i := range x.C {
		if i < len(y.C) {
			eqs = append(eqs, sEq(x.C[i], y.C[i]))
		}
	}
	return sAnd(eqs...)
}

func (fr *Frame) execSlice(t *ssa.Slice, st *State) error {
	vc := fr.vc
	x := fr.val(t.X)
	var lo, hi, mx Term
	if t.Low != nil {
		lo = fr.val(t.Low).C[0]
	} else {
		lo = "0"
	}
	switch xt := t.X.Type().Underlying().(type) {
	case *types.Slice:
		if t.High != nil {
			hi = fr.val(t.High).C[0]
		} else {
			hi = x.C[2]
		}
		capT := x.C[3]
		if t.Max != nil {
			mx = fr.val(t.Max).C[0]
			fr.implicit(st, "slice", sAnd("(<= 0 "+lo+")", "(<= "+lo+" "+hi+")", "(<= "+hi+" "+mx+")", "(<= "+mx+" "+capT+")"), t.Pos(), isSliceNode, "slice "+t.Name())
		} else {
			mx = capT
			fr.implicit(st, "slice", sAnd("(<= 0 "+lo+")", "(<= "+lo+" "+hi+")", "(<= "+hi+" "+capT+")"), t.Pos(), isSliceNode, "slice "+t.Name())
		}
		fr.vals[t] = Value{C: []Term{x.C[0], vc.define("off", "Int", iAdd(x.C[1], lo)), vc.define("len", "Int", iSub(hi, lo)), vc.define("cap", "Int", iSub(mx, lo))}}
	case *types.Basic: // string
		if t.High != nil {
			hi = fr.val(t.High).C[0]
		} else {
			hi = x.C[2]
		}
		fr.implicit(st, "slice", sAnd("(<= 0 "+lo+")", "(<= "+lo+" "+hi+")", "(<= "+hi+" "+x.C[2]+")"), t.Pos(), isSliceNode, "slice "+t.Name())
		fr.vals[t] = Value{C: []Term{x.C[0], vc.define("off", "Int", iAdd(x.C[1], lo)), vc.define("len", "Int", iSub(hi, lo))}}
	case *types.Pointer:
		at := xt.Elem().Underlying().(*types.Array)
		n := sInt(at.Len())
		if t.High != nil {
			hi = fr.val(t.High).C[0]
		} else {
			hi = n
		}
		if t.Max != nil {
			mx = fr.val(t.Max).C[0]
		} else {
			mx = n
		}
		fr.implicit(st, "slice", sAnd("(<= 0 "+lo+")", "(<= "+lo+" "+hi+")", "(<= "+hi+" "+mx+")", "(<= "+mx+" "+n+")"), t.Pos(), isSliceNode, "slice "+t.Name())
		fr.vals[t] = Value{C: []Term{x.C[0], lo, vc.define("len", "Int", iSub(hi, lo)), vc.define("cap", "Int", iSub(mx, lo))}}
	default:
		return fmt.Errorf("Slice on %s", t.X.Type())
	}
	return nil
}

// ---------------------------------------------------------------------
// interfaces

func (vc *VC) makeIface(x Value, t types.Type) Value {
	if _, ok := t.Underlying().(*types.Interface); ok {
		return x
	}
	id := sInt(int64(vc.eng.typeId(t)))
	cs := comps(t)
	if len(cs) == 1 && cs[0].Sort == "Int" {
		return Value{C: []Term{id, x.C[0]}}
	}
	if len(cs) == 1 && cs[0].Sort == "Bool" {
		return Value{C: []Term{id, sIte(x.C[0], "1", "0")}}
	}
	if len(cs) == 0 {
		return Value{C: []Term{id, "0"}}
	}
	bn := sym("box:" + typeKey(t))
	var sorts []string
	for _, c := range cs {
		sorts = append(sorts, c.Sort)
	}
	vc.declareFun(bn, sorts, "Int")
	boxed := sApp(bn, x.C...)
	if isStringT(t) {
		// a string in an interface is identified by its value (map keys, ==), not by where its
		// bytes live: box it as its string identity
		boxed = vc.strId(x)
	}
	bt := vc.define("boxed", "Int", boxed)
	for i, c := range cs {
		un := sym(fmt.Sprintf("unbox:%s:%d", typeKey(t), i))
		vc.declareFun(un, []string{"Int"}, c.Sort)
		vc.assumeAlways(sEq(sApp(un, bt), x.C[i]))
	}
	return Value{C: []Term{id, bt}}
}

func (vc *VC) unbox(val Term, t types.Type) Value {
	cs := comps(t)
	if len(cs) == 1 && cs[0].Sort == "Int" {
		return Value{C: []Term{val}}
	}
	if len(cs) == 1 && cs[0].Sort == "Bool" {
		return Value{C: []Term{sNot(sEq(val, "0"))}}
	}
	out := Value{C: make([]Term, len(cs))}
	for i, c := range cs {
		un := sym(fmt.Sprintf("unbox:%s:%d", typeKey(t), i))
		vc.declareFun(un, []string{"Int"}, c.Sort)
		out.C[i] = sApp(un, val)
	}
	return out
}

func (fr *Frame) execTypeAssert(t *ssa.TypeAssert, st *State) error {
	vc := fr.vc
	x := fr.val(t.X)
	var ok Term
	var v Value
	if _, isIface := t.AssertedType.Underlying().(*types.Interface); isIface {
		iid := sInt(int64(vc.eng.typeId(t.AssertedType)))
		vc.declareFun("implements", []string{"Int", "Int"}, "Bool")
		ok = sAnd(sNot(sEq(x.C[0], "0")), sApp("implements", x.C[0], iid))
		// statically known implementations
		ok = vc.defineBool("implements", ok)
		v = Value{C: []Term{sIte(ok, x.C[0], "0"), sIte(ok, x.C[1], "0")}}
	} else {
		id := sInt(int64(vc.eng.typeId(t.AssertedType)))
		ok = sEq(x.C[0], id)
		u := vc.unbox(x.C[1], t.AssertedType)
		z := zeroValue(t.AssertedType)
		v = Value{C: make([]Term, len(u.C))}
		for i := range u.C {
			if t.CommaOk {
				v.C[i] = sIte(ok, u.C[i], z.C[i])
			} else {
				v.C[i] = u.C[i]
			}
		}
		if f := vc.typeFacts(v, t.AssertedType); f != "true" {
			vc.assumeAlways(sImp(ok, f))
		}
	}
	if t.CommaOk {
		fr.vals[t] = Value{C: append(append([]Term{}, v.C...), ok)}
	} else {
		if vc.contract != nil && vc.contract.Flags["typeassert"] == "panic" && !(os.Getenv("GOVC_AUDIT_TYPEASSERT") != "" && vc.contract.Flags["nopanic"] == "") {
			// precise semantics: a failing assertion panics (and may be recovered by a deferred function)
			okb := vc.defineBool("assert.ok", ok)
			ps := st.clone()
			ps.reach = sAnd(st.reach, sNot(okb))
			fr.addPanic(ps)
			st.reach = sAnd(st.reach, okb)
		} else {
			fr.implicit(st, "typeassert", ok, t.Pos(), isAnyExpr, "assert "+t.Name())
		}
		fr.vals[t] = v
	}
	return nil
}

func (fr *Frame) execConvert(t *ssa.Convert, st *State) error {
	vc := fr.vc
	x := fr.val(t.X)
	from, to := t.X.Type(), t.Type()
	switch {
	case isInteger(from) && isInteger(to):
		flo, fhi, _ := intRange(from)
		tlo, thi, ok := intRange(to)
		r := x.C[0]
		if ok && !rangeWithin(flo, fhi, tlo, thi) {
			r = wrapTo(to, r)
		}
		fr.vals[t] = Value{C: []Term{vc.define(fr.vname(t), "Int", r)}}
	case isInteger(from) && isFloat(to):
		fr.vals[t] = Value{C: []Term{"(to_real " + x.C[0] + ")"}}
	case isFloat(from) && isInteger(to):
		// truncation toward zero; out-of-range results are implementation specific in Go
		r := "(ite (>= " + x.C[0] + " 0.0) (to_int " + x.C[0] + ") (- (to_int (- " + x.C[0] + "))))"
		r = vc.define(fr.vname(t), "Int", r)
		vc.assumed["float to integer conversion assumed in range of the target type"] = true
		fr.vals[t] = Value{C: []Term{r}}
	case isFloat(from) && isFloat(to):
		fr.vals[t] = x
	case isStringT(to) && isSliceOfBytes(from):
		// string(bytes): fresh immutable copy
		a := vc.newAlloc(st, types.NewArray(types.Typ[types.Uint8], 0), true)
		sm := vc.get(st, "S.byte", "(Array Int (Array Int Int))")
		mm := vc.get(st, "M.uint8", "(Array Int (Array Int Int))")
		nid := vc.fresh("strcopy", "Int")
		vc.assumeAlways("(> " + nid + " 0)")
		_ = a
		vc.assume(st, sEq(sSel(sm, nid), sSel(mm, x.C[0])))
		fr.vals[t] = Value{C: []Term{nid, x.C[1], x.C[2]}}
	case isSliceOfBytes(to) && isStringT(from):
		a := vc.newAlloc(st, types.NewArray(types.Typ[types.Uint8], 0), true)
		sm := vc.get(st, "S.byte", "(Array Int (Array Int Int))")
		srt := "(Array Int (Array Int Int))"
		mm := vc.get(st, "M.uint8", srt)
		vc.set(st, "M.uint8", srt, sStore(mm, a.ref, sSel(sm, x.C[0])))
		fr.vals[t] = Value{C: []Term{a.ref, x.C[1], x.C[2], x.C[2]}}
	case isPointerLike(from) && isPointerLike(to):
		fr.vals[t] = Value{C: []Term{x.C[0]}}
		if _, ok := to.Underlying().(*types.Pointer); ok {
			vc.note("unsafe.Pointer conversion: pointee reinterpreted by type")
		}
	default:
		fr.vals[t] = fr.abstractValue(t, st, "convert "+from.String()+" -> "+to.String())
	}
	return nil
}

func isSliceOfBytes(t types.Type) bool {
	s, ok := t.Underlying().(*types.Slice)
	if !ok {
		return false
	}
	b, ok := s.Elem().Underlying().(*types.Basic)
	return ok && b.Kind() == types.Uint8
}

func isPointerLike(t types.Type) bool {
	switch u := t.Underlying().(type) {
	case *types.Pointer:
		return true
	case *types.Basic:
		return u.Kind() == types.UnsafePointer || u.Kind() == types.Uintptr
	}
	return false
}

func rangeWithin(flo, fhi, tlo, thi string) bool {
	a, _ := isBigConst(sBigStr(flo))
	b, _ := isBigConst(sBigStr(fhi))
	c, _ := isBigConst(sBigStr(tlo))
	d, _ := isBigConst(sBigStr(thi))
	if a == nil || b == nil || c == nil || d == nil {
		return false
	}
	return a.Cmp(c) >= 0 && b.Cmp(d) <= 0
}

// ---------------------------------------------------------------------
// maps: modelled for keys with a single Int component and string keys

func mapKeyTerm(vc *VC, k Value, kt types.Type) (Term, bool) {
	if isStringT(kt) {
		return vc.strId(k), true
	}
	cs := comps(kt)
	if len(cs) == 1 && cs[0].Sort == "Int" {
		return k.C[0], true
	}
	if _, ok := kt.Underlying().(*types.Interface); ok {
		return "", false
	}
	return "", false
}

func mapFam(mt types.Type) string { return "MP." + typeKey(mt) }

func (fr *Frame) mapInit(st *State, mt types.Type, ref Term) {
	vc := fr.vc
	m := mt.Underlying().(*types.Map)
	if _, ok := mapKeyTerm(vc, zeroValue(m.Key()), m.Key()); !ok {
		return
	}
	fam := mapFam(mt)
	hs := "(Array Int (Array Int Bool))"
	has := vc.get(st, fam+".has", hs)
	vc.set(st, fam+".has", hs, sStore(has, ref, "((as const (Array Int Bool)) false)"))
	cn := vc.get(st, fam+".count", "(Array Int Int)")
	vc.set(st, fam+".count", "(Array Int Int)", sStore(cn, ref, "0"))
}

func (fr *Frame) execMapUpdate(t *ssa.MapUpdate, st *State) error {
	vc := fr.vc
	m := fr.val(t.Map)
	mt := t.Map.Type()
	mu := mt.Underlying().(*types.Map)
	fr.implicit(st, "nilmap", sNot(sEq(m.C[0], "0")), t.Pos(), isAnyExpr, "mapupdate")
	k, ok := mapKeyTerm(vc, fr.val(t.Key), mu.Key())
	fam := mapFam(mt)
	if !ok {
		vc.note("map update with unmodelled key type: map contents havocked")
		for _, c := range comps(mu.Elem()) {
			vc.havocFam(st, fam+".val"+c.Suffix)
		}
		vc.havocFam(st, fam+".has")
		vc.havocFam(st, fam+".count")
		return nil
	}
	k = vc.define("key", "Int", k)
	hs := "(Array Int (Array Int Bool))"
	has := vc.get(st, fam+".has", hs)
	cn := vc.get(st, fam+".count", "(Array Int Int)")
	was := sSel(sSel(has, m.C[0]), k)
	vc.set(st, fam+".count", "(Array Int Int)", sStore(cn, m.C[0], sIte(was, sSel(cn, m.C[0]), iAdd(sSel(cn, m.C[0]), "1"))))
	vc.set(st, fam+".has", hs, sStore(has, m.C[0], sStore(sSel(has, m.C[0]), k, "true")))
	v := fr.val(t.Value)
	if c, pkg := fr.mapInvOf(mu.Elem()); c != nil && fr.dry == 0 {
		g, err := fr.chanInvTerm(c, pkg, v, mu.Elem(), st)
		if err != nil {
			return err
		}
		vc.oblige(st, "mapinv", c.Label, g, t.Pos(), c.Text)
	}
	for i, c := range comps(mu.Elem()) {
		srt := "(Array Int (Array Int " + c.Sort + "))"
		a := vc.get(st, fam+".val"+c.Suffix, srt)
		vc.set(st, fam+".val"+c.Suffix, srt, sStore(a, m.C[0], sStore(sSel(a, m.C[0]), k, v.C[i])))
	}
	return nil
}

func (fr *Frame) execLookup(t *ssa.Lookup, st *State) error {
	vc := fr.vc
	x := fr.val(t.X)
	mu, isMap := t.X.Type().Underlying().(*types.Map)
	if !isMap {
		// string index
		idx := fr.val(t.Index).C[0]
		fr.implicit(st, "index", sAnd("(<= 0 "+idx+")", "(< "+idx+" "+x.C[2]+")"), t.Pos(), isIndexNode, "index "+t.Name())
		m := vc.get(st, "S.byte", "(Array Int (Array Int Int))")
		b := vc.define("strbyte", "Int", sSel(sSel(m, x.C[0]), iAdd(x.C[1], idx)))
		vc.assumeAlways(sAnd("(<= 0 "+b+")", "(<= "+b+" 255)"))
		fr.vals[t] = Value{C: []Term{b}}
		return nil
	}
	k, ok := mapKeyTerm(vc, fr.val(t.Index), mu.Key())
	fam := mapFam(t.X.Type())
	if !ok {
		v := vc.freshValue(fr.vname(t), t.Type(), st)
		vc.note("map lookup with unmodelled key type: result abstracted")
		fr.vals[t] = v
		return nil
	}
	k = vc.define("key", "Int", k)
	has := vc.get(st, fam+".has", "(Array Int (Array Int Bool))")
	present := sAnd(sNot(sEq(x.C[0], "0")), sSel(sSel(has, x.C[0]), k))
	present = vc.defineBool("present", present)
	cs := comps(mu.Elem())
	z := zeroValue(mu.Elem())
	out := Value{C: make([]Term, 0, len(cs)+1)}
	for i, c := range cs {
		a := vc.get(st, fam+".val"+c.Suffix, "(Array Int (Array Int "+c.Sort+"))")
		out.C = append(out.C, vc.define("mapval", c.Sort, sIte(present, sSel(sSel(a, x.C[0]), k), z.C[i])))
	}
	if f := vc.typeFacts(out, mu.Elem()); f != "true" {
		vc.assumeAlways(f)
	}
	if c, pkg := fr.mapInvOf(mu.Elem()); c != nil {
		// the declared invariant of stored values holds of an entry that was found
		g, err := fr.chanInvTerm(c, pkg, out, mu.Elem(), st)
		if err != nil {
			return err
		}
		vc.assume(st, sImp(present, g))
		vc.assumed["map value invariant "+c.Label+": "+c.Text+" (assumed of every entry found by a lookup; checked only at the map stores of functions under contract)"] = true
	}
	if t.CommaOk {
		out.C = append(out.C, present)
	}
	fr.vals[t] = out
	return nil
}

// mapInvOf: the declared invariant of the values stored in maps with this (named) value type
func (fr *Frame) mapInvOf(et types.Type) (*Clause, *types.Package) {
	n := namedOf(et)
	if n == nil || n.Obj().Pkg() == nil {
		return nil, nil
	}
	if c, ok := fr.vc.eng.cs.MapInvs[n.Obj().Pkg().Path()+"::"+n.Obj().Name()]; ok {
		return c, n.Obj().Pkg()
	}
	return nil, nil
}

// ---------------------------------------------------------------------
// channels

// chanInvOf: the declared invariant of the channel this SSA value denotes (a load of Struct.field)
func (fr *Frame) chanInvOf(v ssa.Value) (*Clause, *types.Package) {
	ld, ok := v.(*ssa.UnOp)
	if !ok || ld.Op != token.MUL {
		return nil, nil
	}
	fa, ok := ld.X.(*ssa.FieldAddr)
	if !ok {
		return nil, nil
	}
	st := fa.X.Type().Underlying().(*types.Pointer).Elem()
	n := namedOf(st)
	s, isS := isStruct(st)
	if n == nil || !isS || n.Obj().Pkg() == nil {
		return nil, nil
	}
	key := n.Obj().Pkg().Path() + "::" + n.Obj().Name() + "." + s.Field(fa.Field).Name()
	if c, ok := fr.vc.eng.cs.ChanInvs[key]; ok {
		return c, n.Obj().Pkg()
	}
	return nil, nil
}

func (fr *Frame) chanInvTerm(c *Clause, pkg *types.Package, v Value, et types.Type, st *State) (Term, error) {
	env := map[string]bound{"v": {v, et}}
	val, _, err := fr.evalIn(c.Text, pkg, env, st, st, nil)
	if err != nil {
		return "", fmt.Errorf("%s:%d: %v", c.File, c.Line, err)
	}
	return val.C[0], nil
}

func (fr *Frame) execSend(t *ssa.Send, st *State) error {
	fr.escapeArgs([]Value{fr.val(t.X)})
	if c, pkg := fr.chanInvOf(t.Chan); c != nil && fr.dry == 0 {
		et := t.Chan.Type().Underlying().(*types.Chan).Elem()
		g, err := fr.chanInvTerm(c, pkg, fr.val(t.X), et, st)
		if err != nil {
			return err
		}
		fr.vc.oblige(st, "chaninv", c.Label, g, t.Pos(), c.Text)
	}
	ch := fr.val(t.Chan)
	if err := fr.atSend(st, ch, t.Chan.Type(), fr.val(t.X), t.Block(), t.Pos()); err != nil {
		return err
	}
	fr.chanSendEffect(st, ch.C[0])
	fr.chanLastSent(st, ch.C[0], t.Chan.Type().Underlying().(*types.Chan).Elem(), fr.val(t.X))
	return nil
}

// atSend: the `atsend` clauses of the function under verification are obligations at each of its
// channel sends (sent = the value, ch = the channel), evaluated in the state before the send.
func (fr *Frame) atSend(st *State, ch Value, cht types.Type, v Value, blk *ssa.BasicBlock, pos token.Pos) error {
	if fr.parent != nil || fr.contract == nil || len(fr.contract.AtSend) == 0 || fr.dry != 0 {
		return nil
	}
	et := cht.Underlying().(*types.Chan).Elem()
	for _, cl := range fr.contract.AtSend {
		fr.evalPoint = blk
		g, sks, err := fr.evalGoal(cl, st, fr.entry, map[string]bound{"sent": {v, et}, "ch": {ch, cht}})
		fr.evalPoint = nil
		if err != nil {
			return fmt.Errorf("%s:%d: %v", cl.File, cl.Line, err)
		}
		fr.vc.obligeHinted(st, "atsend", fr.contract.clauseName(cl), g, sks, pos, cl.Text)
	}
	return nil
}

// ghost: the value most recently sent on each channel (per element type)
func chanLastKey(et types.Type) string { return "ghost.chanlast:" + typeKey(et) }

func (fr *Frame) chanLastSent(st *State, ch Term, et types.Type, v Value) {
	vc := fr.vc
	for i, c := range comps(et) {
		key := chanLastKey(et) + c.Suffix
		srt := "(Array Int " + c.Sort + ")"
		a := vc.get(st, key, srt)
		vc.set(st, key, srt, sStore(a, ch, v.C[i]))
	}
}

// ghost accounting: number of buffered items; a send completes only when there is room
func (fr *Frame) chanSendEffect(st *State, ch Term) {
	vc := fr.vc
	lenA := vc.get(st, "ghost.chanlen", "(Array Int Int)")
	vc.set(st, "ghost.chanlen", "(Array Int Int)", sStore(lenA, ch, iAdd(sSel(lenA, ch), "1")))
	sent := vc.get(st, "ghost.chansent", "(Array Int Int)")
	vc.set(st, "ghost.chansent", "(Array Int Int)", sStore(sent, ch, iAdd(sSel(sent, ch), "1")))
}

func (fr *Frame) chanRecvEffect(st *State, ch Term) {
	vc := fr.vc
	lenA := vc.get(st, "ghost.chanlen", "(Array Int Int)")
	vc.set(st, "ghost.chanlen", "(Array Int Int)", sStore(lenA, ch, iSub(sSel(lenA, ch), "1")))
	rc := vc.get(st, "ghost.chanrecv", "(Array Int Int)")
	vc.set(st, "ghost.chanrecv", "(Array Int Int)", sStore(rc, ch, iAdd(sSel(rc, ch), "1")))
}

func (fr *Frame) execRecv(t *ssa.UnOp, st *State) error {
	vc := fr.vc
	ch := fr.val(t.X)
	fr.chanRecvEffect(st, ch.C[0])
	et := t.X.Type().Underlying().(*types.Chan).Elem()
	v := vc.freshValue(fr.vname(t), et, st)
	if c, pkg := fr.chanInvOf(t.X); c != nil {
		if g, err := fr.chanInvTerm(c, pkg, v, et, st); err == nil {
			vc.assume(st, g)
		}
	}
	if t.CommaOk {
		ok := vc.fresh(fr.vname(t)+".ok", "Bool")
		v.C = append(v.C, ok)
	}
	fr.vals[t] = v
	return nil
}

func (fr *Frame) execSelect(t *ssa.Select, st *State) error {
	vc := fr.vc
	n := len(t.States)
	idx := vc.fresh(fr.vname(t)+".idx", "Int")
	lo := "0"
	if !t.Blocking {
		lo = "(- 1)"
	}
	vc.assumeAlways(sAnd("(<= "+lo+" "+idx+")", "(< "+idx+" "+sInt(int64(n))+")"))
	// ghost accounting per chosen arm
	lenA := vc.get(st, "ghost.chanlen", "(Array Int Int)")
	sentA := vc.get(st, "ghost.chansent", "(Array Int Int)")
	recvA := vc.get(st, "ghost.chanrecv", "(Array Int Int)")
	nl, ns, nr := lenA, sentA, recvA
	for i, s := range t.States {
		ch := fr.val(s.Chan).C[0]
		c := sEq(idx, sInt(int64(i)))
		if s.Dir == types.SendOnly {
			nl = sIte(c, sStore(lenA, ch, iAdd(sSel(lenA, ch), "1")), nl)
			ns = sIte(c, sStore(sentA, ch, iAdd(sSel(sentA, ch), "1")), ns)
			et := s.Chan.Type().Underlying().(*types.Chan).Elem()
			sv := fr.val(s.Send)
			if ci, pkg := fr.chanInvOf(s.Chan); ci != nil && fr.dry == 0 {
				if g, err := fr.chanInvTerm(ci, pkg, sv, et, st); err == nil {
					// the value offered must satisfy the invariant whichever arm fires
					vc.oblige(st, "chaninv", ci.Label, g, t.Pos(), ci.Text)
				} else {
					return err
				}
			}
			if err := fr.atSend(st, fr.val(s.Chan), s.Chan.Type(), sv, t.Block(), t.Pos()); err != nil {
				return err
			}
			for k, cp := range comps(et) {
				key := chanLastKey(et) + cp.Suffix
				srt := "(Array Int " + cp.Sort + ")"
				a := vc.get(st, key, srt)
				vc.set(st, key, srt, sIte(c, sStore(a, ch, sv.C[k]), a))
			}
		} else {
			nl = sIte(c, sStore(lenA, ch, iSub(sSel(lenA, ch), "1")), nl)
			nr = sIte(c, sStore(recvA, ch, iAdd(sSel(recvA, ch), "1")), nr)
		}
	}
	vc.set(st, "ghost.chanlen", "(Array Int Int)", nl)
	vc.set(st, "ghost.chansent", "(Array Int Int)", ns)
	vc.set(st, "ghost.chanrecv", "(Array Int Int)", nr)
	out := Value{C: []Term{idx, vc.fresh(fr.vname(t)+".recvOk", "Bool")}}
	for _, s := range t.States {
		if s.Dir == types.RecvOnly {
			et := s.Chan.Type().Underlying().(*types.Chan).Elem()
			v := vc.freshValue(fr.vname(t)+".recv", et, st)
			if ci, pkg := fr.chanInvOf(s.Chan); ci != nil {
				if g, err := fr.chanInvTerm(ci, pkg, v, et, st); err == nil {
					vc.assume(st, g)
				}
			}
			out.C = append(out.C, v.C...)
		}
	}
	fr.vals[t] = out
	return nil
}

// guardCheck: a field declared `guarded Struct.f by mu` may only be accessed while the
// mutex field mu of the same object is held (exclusively, when the access can write).
func (fr *Frame) guardCheck(t *ssa.FieldAddr, x Value, stt types.Type, st *State) {
	vc := fr.vc
	n := namedOf(stt)
	s, isS := isStruct(stt)
	if n == nil || !isS || n.Obj().Pkg() == nil {
		return
	}
	fname := s.Field(t.Field).Name()
	lockName, ok := vc.eng.cs.Guarded[n.Obj().Pkg().Path()+"::"+n.Obj().Name()+"."+fname]
	if !ok {
		return
	}
	// constructors work on objects nobody else can see yet
	if vc.contract != nil && vc.contract.Flags["constructor"] != "" {
		return
	}
	li := -1
	for i := 0; i < s.NumFields(); i++ {
		if s.Field(i).Name() == lockName {
			li = i
		}
	}
	if li < 0 {
		vc.errs = append(vc.errs, "guarded: no lock field "+lockName+" in "+n.Obj().Name())
		return
	}
	lp := vc.fieldPtr(x, stt, li)
	held := vc.get(st, "ghost.held", "(Array Int Int)")
	h := sSel(held, lp.C[0])
	writes := fieldAddrWrites(t, map[ssa.Value]bool{})
	goal := sNot(sEq(h, "0"))
	kind := "guarded_read"
	if writes {
		goal = sEq(h, "1")
		kind = "guarded_write"
	}
	fr.implicit(st, kind, goal, t.Pos(), isAnyExpr, n.Obj().Name()+"."+fname)
}

// does this address (or a slice/pointer loaded through it) get stored to?
func fieldAddrWrites(v ssa.Value, seen map[ssa.Value]bool) bool {
	if seen[v] {
		return false
	}
	seen[v] = true
	refs := v.Referrers()
	if refs == nil {
		return true
	}
	for _, r := range *refs {
		switch in := r.(type) {
		case *ssa.Store:
			if in.Addr == v {
				return true
			}
		case *ssa.UnOp:
			// loaded slice: element stores count as writes of the guarded data
			if in.Op == token.MUL {
				if _, ok := in.Type().Underlying().(*types.Slice); ok {
					if fieldAddrWrites(in, seen) {
						return true
					}
				}
				if _, ok := in.Type().Underlying().(*types.Map); ok {
					// loaded map: updates and deletes are writes of the guarded data
					if refs := in.Referrers(); refs != nil {
						for _, r2 := range *refs {
							switch u := r2.(type) {
							case *ssa.MapUpdate:
								if u.Map == in {
									return true
								}
							case *ssa.Call:
								if b, ok := u.Call.Value.(*ssa.Builtin); ok && b.Name() == "delete" {
									return true
								}
							}
						}
					}
				}
			}
		case *ssa.IndexAddr:
			if fieldAddrWrites(in, seen) {
				return true
			}
		case *ssa.Call:
			if in.Common().IsInvoke() {
				continue
			}
			// passed to append etc: result is written back through a Store which we see
		}
	}
	return false
}

// bitMask: an over-approximation of the bits that can be set in the non-negative integer
// value v (nil = unknown). Used to turn | of disjoint fields into +.
func bitMask(v ssa.Value, depth int) *big.Int {
	if depth > 12 {
		return nil
	}
	switch x := v.(type) {
	case *ssa.Const:
		if x.Value == nil {
			return big.NewInt(0)
		}
		if x.Value.Kind() == constant.Int {
			n, ok := new(big.Int).SetString(x.Value.ExactString(), 10)
			if ok && n.Sign() >= 0 {
				return n
			}
		}
		return nil
	case *ssa.Convert:
		from, to := x.X.Type(), x.Type()
		if !isInteger(from) || !isInteger(to) {
			return nil
		}
		m := bitMask(x.X, depth+1)
		fb, fs, _ := intBits(from)
		tb, _, _ := intBits(to)
		if m == nil {
			if !fs && fb <= 32 {
				m = new(big.Int).Sub(new(big.Int).Lsh(big.NewInt(1), uint(fb)), big.NewInt(1))
			} else {
				return nil
			}
		}
		if tb < m.BitLen() {
			m = new(big.Int).And(m, new(big.Int).Sub(new(big.Int).Lsh(big.NewInt(1), uint(tb)), big.NewInt(1)))
		}
		return m
	case *ssa.BinOp:
		switch x.Op {
		case token.SHL:
			if c, ok := x.Y.(*ssa.Const); ok && c.Value != nil {
				if k, ok := constant.Int64Val(c.Value); ok && k >= 0 && k < 64 {
					m := bitMask(x.X, depth+1)
					if m == nil {
						return nil
					}
					r := new(big.Int).Lsh(m, uint(k))
					if b, _, ok := intBits(x.Type()); ok && r.BitLen() > b {
						return nil
					}
					return r
				}
			}
		case token.SHR:
			if c, ok := x.Y.(*ssa.Const); ok && c.Value != nil {
				if k, ok := constant.Int64Val(c.Value); ok && k >= 0 && k < 64 {
					m := bitMask(x.X, depth+1)
					if m == nil {
						return nil
					}
					return new(big.Int).Rsh(m, uint(k))
				}
			}
		case token.AND:
			a, b := bitMask(x.X, depth+1), bitMask(x.Y, depth+1)
			switch {
			case a != nil && b != nil:
				return new(big.Int).And(a, b)
			case a != nil:
				return a
			case b != nil:
				return b
			}
		case token.OR, token.XOR:
			a, b := bitMask(x.X, depth+1), bitMask(x.Y, depth+1)
			if a != nil && b != nil {
				return new(big.Int).Or(a, b)
			}
		}
		return nil
	case *ssa.UnOp:
		if x.Op == token.MUL {
			if b, signed, ok := intBits(x.Type()); ok && !signed && b <= 32 {
				return new(big.Int).Sub(new(big.Int).Lsh(big.NewInt(1), uint(b)), big.NewInt(1))
			}
		}
	case *ssa.Index, *ssa.Lookup, *ssa.Extract, *ssa.Call, *ssa.Parameter, *ssa.Phi:
		if b, signed, ok := intBits(v.Type()); ok && !signed && b <= 32 {
			return new(big.Int).Sub(new(big.Int).Lsh(big.NewInt(1), uint(b)), big.NewInt(1))
		}
	}
	return nil
}

func disjointBits(a, b ssa.Value) bool {
	ma, mb := bitMask(a, 0), bitMask(b, 0)
	if ma == nil || mb == nil {
		return false
	}
	return new(big.Int).And(ma, mb).Sign() == 0
}
