package main

// Contract files: structured comments, Gobra style, in build-tag guarded
// comment-only files  /repo/<pkg>/verif_contracts.go  (contracts on the
// repository's own functions) and /verif/contracts/ext/*.contracts (assumed
// contracts of external functions).

import (
	"fmt"
	"os"
	"path/filepath"
	"regexp"
	"sort"
	"strconv"
	"strings"
)

type Clause struct {
	Kind  string // requires ensures ensures_panic invariant decreases assert lemma
	Label string
	Text  string
	File  string
	Line  int
}

type LoopSpec struct {
	Invariants []*Clause
	IterEns    []*Clause // per-iteration postconditions: checked on every back edge, old() = start of the iteration
	Decreases  *Clause
	Unroll     int
}

type Contract struct {
	Kind     string // func | type | iface | ext
	Pkg      string // package path
	Key      string // e.g. (*CircuitBreaker).IOHandler, NextIOHandler, Dict.GetInt
	Props    []string
	Requires []*Clause
	Ensures  []*Clause
	EnsPanic []*Clause
	Modifies []string // raw location expressions; "heap" = everything
	Loops    map[int]*LoopSpec
	QLoops   map[string]*LoopSpec // loops of inlined helpers: "Helper.1" -> spec (names resolve in the helper's frame)
	Flags    map[string]string    // nopanic, maypanic, arith, pure, inline, atomic, root...
	Params   []string             // for ext/type contracts: parameter names (positional binding)
	Results  []string
	File     string
	Line     int
	Assumed  bool                 // ext / type / iface contracts are assumptions
	Lets     []*Clause            // let name = expr (evaluated in pre-state)
	Stable   []string             // locations assumed untouched by unknown calls (justified by an encapsulation rule)
	OnCall   map[string][]*Clause // parameter name -> assertions that must hold whenever it is called
	AtCall   map[string][]*Clause // callee name (funcKey, or its method name) -> assertions at each call of it
	AtSend   []*Clause            // assertions at each channel send of the function (sent = the value, ch = the channel)
	Uses     []string             // templates merged into this contract (`use NAME`)
	AtMake   []*Clause            // assertions at each make([]T, len, cap) of the function (len, cap bound)
}

type GhostDecl struct {
	Pkg    string
	Name   string
	Dims   int    // number of Int index dimensions ("@" prefixes)
	Sort   string // element sort Int | Bool | Real ; "" when GoType is set
	GoType string // element Go type expression, evaluated in package Pkg
}

type GlobalInv struct {
	Pkg  string
	Text string
	File string
	Line int
}

type Lemma struct {
	Pkg   string
	Name  string
	Props []string
	Text  string // SMT-LIB script body: assertions whose conjunction must be unsat
	File  string
	Line  int
}

type StructRule struct {
	Pkg   string
	Kind  string // guarded_by | atomic_only | encapsulated | root | publish ...
	Args  []string
	Props []string
	Label string
	File  string
	Line  int
}

type ContractSet struct {
	Funcs      map[string]*Contract // pkg + "::" + key
	Types      map[string]*Contract // pkg + "::" + typename  (func types)
	Ifaces     map[string]*Contract // pkg + "::" + Iface.Method
	Ghosts     map[string]*GhostDecl
	Globals    []*GlobalInv
	Lemmas     []*Lemma
	Rules      []*StructRule
	Specs      []string // raw SMT-LIB definitions (spec functions)
	Blocks     []SpecBlock
	Macros     map[string]SpecMacro
	SpecSyms   map[string]specSig
	Templates  map[string]*Contract // template name -> contract body
	Axioms     []string             // named axioms about spec functions (each justified by a lemma obligation)
	Families   []*Family
	FieldFuncs map[string]string // pkg::Struct.field -> pkg::TypeContract
	ModSets    map[string][]string
	Guarded    map[string]string  // pkg::Struct.field -> name of the mutex field in the same struct
	ChanInvs   map[string]*Clause // pkg::Struct.field -> invariant over the values sent on that channel (variable v)
	MapInvs    map[string]*Clause // pkg::Type -> invariant over the values STORED in maps with that value type (variable v)
}

type Family struct {
	Pkg      string
	Pattern  *regexp.Regexp
	Template string
	File     string
	Line     int
}

type specSig struct {
	Name string
	Args []string
	Ret  string
}

func newContractSet() *ContractSet {
	cs := &ContractSet{
		Funcs: map[string]*Contract{}, Types: map[string]*Contract{}, Ifaces: map[string]*Contract{},
		Ghosts: map[string]*GhostDecl{}, SpecSyms: map[string]specSig{}, Templates: map[string]*Contract{},
		FieldFuncs: map[string]string{}, ModSets: map[string][]string{}, Guarded: map[string]string{}, ChanInvs: map[string]*Clause{}, MapInvs: map[string]*Clause{},
	}
	// built-in ghost state maintained by the generator
	cs.Ghosts["clock"] = &GhostDecl{Name: "clock", Sort: "Int"}
	cs.Ghosts["spawned"] = &GhostDecl{Name: "spawned", Sort: "Int"}
	cs.Ghosts["rangeit"] = &GhostDecl{Name: "rangeit", Sort: "Int", Dims: 1}
	for _, n := range []string{"chanlen", "chancap", "chansent", "chanrecv", "chanclosed", "held", "once_done", "wg"} {
		cs.Ghosts[n] = &GhostDecl{Name: n, Sort: "Int", Dims: 1}
	}
	return cs
}

var clauseKeywords = map[string]bool{
	"prop": true, "requires": true, "ensures": true, "ensures_panic": true, "modifies": true,
	"loop": true, "nopanic": true, "maypanic": true, "arith": true, "pure": true, "inline": true,
	"flag": true, "params": true, "results": true, "let": true, "noinline": true, "havoc": true, "stable": true, "use": true,
	"oncall": true, "atcall": true, "atsend": true, "atmake": true,
}

var blockKeywords = map[string]bool{
	"func": true, "type": true, "iface": true, "ext": true, "ghost": true, "global": true,
	"lemma": true, "spec": true, "rule": true, "package": true, "template": true, "funcs": true,
	"ghostfield": true, "fieldfunc": true, "modset": true, "guarded": true, "chaninv": true, "mapinv": true,
}

var labelRe = regexp.MustCompile(`^\[([A-Za-z0-9_.:-]+)\]\s*`)

func (cs *ContractSet) parseFile(path, pkg string, requirePrefix bool) error {
	data, err := os.ReadFile(path)
	if err != nil {
		return err
	}
	lines := strings.Split(string(data), "\n")
	var cur *Contract
	inModifies := false
	var curClause *Clause
	var curLemma *Lemma
	var curSpec *strings.Builder
	flushSpec := func() {
		if curSpec != nil {
			cs.addSpec(curSpec.String())
			curSpec = nil
		}
	}
	for i, raw := range lines {
		ln := i + 1
		line := raw
		if requirePrefix {
			t := strings.TrimSpace(line)
			if !strings.HasPrefix(t, "//@") {
				continue
			}
			line = strings.TrimPrefix(t, "//@")
		} else {
			t := strings.TrimSpace(line)
			if strings.HasPrefix(t, "//@") {
				line = strings.TrimPrefix(t, "//@")
			} else if strings.HasPrefix(t, "#") || strings.HasPrefix(t, "//") {
				continue
			}
		}
		if strings.TrimSpace(line) == "" {
			continue
		}
		fields := strings.Fields(line)
		kw := fields[0]
		rest := strings.TrimSpace(strings.TrimPrefix(strings.TrimSpace(line), kw))
		indented := strings.HasPrefix(line, "  ") || strings.HasPrefix(line, "\t")
		switch {
		case blockKeywords[kw] && !indented:
			inModifies = false
			flushSpec()
			cur, curClause, curLemma = nil, nil, nil
			switch kw {
			case "package":
				pkg = rest
			case "ghost", "ghostfield":
				f := strings.Fields(rest)
				if len(f) < 2 {
					return fmt.Errorf("%s:%d: ghost NAME SORT", path, ln)
				}
				sortS := strings.Join(f[1:], " ")
				gd := &GhostDecl{Pkg: pkg, Name: f[0]}
				for strings.HasPrefix(sortS, "@") {
					gd.Dims++
					sortS = sortS[1:]
				}
				switch sortS {
				case "int", "Int":
					gd.Sort = "Int"
				case "bool", "Bool":
					gd.Sort = "Bool"
				case "real", "Real":
					gd.Sort = "Real"
				default:
					gd.GoType = sortS
				}
				cs.Ghosts[f[0]] = gd
			case "chaninv":
				// chaninv Struct.field EXPR(v): every value v sent on the channel held in that field satisfies EXPR
				f := strings.Fields(rest)
				if len(f) < 2 {
					return fmt.Errorf("%s:%d: chaninv Struct.field EXPR", path, ln)
				}
				cs.ChanInvs[pkg+"::"+f[0]] = &Clause{Kind: "chaninv", Text: strings.TrimSpace(strings.TrimPrefix(rest, f[0])), File: path, Line: ln, Label: f[0]}
			case "mapinv":
				// mapinv Type EXPR(v): every value v stored in a map whose value type is Type satisfies EXPR
				// (obliged at every map store in a function under contract, assumed of every entry found by a lookup)
				f := strings.Fields(rest)
				if len(f) < 2 {
					return fmt.Errorf("%s:%d: mapinv Type EXPR", path, ln)
				}
				cs.MapInvs[pkg+"::"+f[0]] = &Clause{Kind: "mapinv", Text: strings.TrimSpace(strings.TrimPrefix(rest, f[0])), File: path, Line: ln, Label: f[0]}
			case "guarded":
				// guarded Struct.field by lockfield
				f := strings.Fields(rest)
				if len(f) != 3 || f[1] != "by" {
					return fmt.Errorf("%s:%d: guarded Struct.field by lockfield", path, ln)
				}
				cs.Guarded[pkg+"::"+f[0]] = f[2]
			case "modset":
				parts := strings.SplitN(rest, "=", 2)
				if len(parts) != 2 {
					return fmt.Errorf("%s:%d: modset NAME = loc, loc, ...", path, ln)
				}
				var locs []string
				for _, m := range splitTop(parts[1], ',') {
					locs = append(locs, strings.TrimSpace(m))
				}
				cs.ModSets[strings.TrimSpace(parts[0])] = locs
			case "fieldfunc":
				// fieldfunc Struct.field TypeContractName : calls through that field use the named type contract
				f := strings.Fields(rest)
				if len(f) != 2 {
					return fmt.Errorf("%s:%d: fieldfunc Struct.field TypeContract", path, ln)
				}
				cs.FieldFuncs[pkg+"::"+f[0]] = pkg + "::" + f[1]
			case "global":
				cs.Globals = append(cs.Globals, &GlobalInv{Pkg: pkg, Text: rest, File: path, Line: ln})
			case "lemma":
				curLemma = &Lemma{Pkg: pkg, Name: strings.Fields(rest)[0], File: path, Line: ln}
				for _, p := range strings.Fields(rest)[1:] {
					curLemma.Props = append(curLemma.Props, p)
				}
				cs.Lemmas = append(cs.Lemmas, curLemma)
			case "spec":
				curSpec = &strings.Builder{}
				curSpec.WriteString(rest + "\n")
			case "rule":
				f := strings.Fields(rest)
				r := &StructRule{Pkg: pkg, File: path, Line: ln}
				for _, a := range f {
					if strings.HasPrefix(a, "prop=") {
						r.Props = strings.Split(strings.TrimPrefix(a, "prop="), ",")
					} else if strings.HasPrefix(a, "label=") {
						r.Label = strings.TrimPrefix(a, "label=")
					} else if r.Kind == "" {
						r.Kind = a
					} else {
						r.Args = append(r.Args, a)
					}
				}
				cs.Rules = append(cs.Rules, r)
			case "funcs":
				// funcs <regexp> : template <name>
				parts := strings.SplitN(rest, ":", 2)
				if len(parts) != 2 {
					return fmt.Errorf("%s:%d: funcs REGEXP : template NAME", path, ln)
				}
				re, err := regexp.Compile("^" + strings.TrimSpace(parts[0]) + "$")
				if err != nil {
					return fmt.Errorf("%s:%d: %v", path, ln, err)
				}
				tf := strings.Fields(parts[1])
				if len(tf) != 2 || tf[0] != "template" {
					return fmt.Errorf("%s:%d: funcs REGEXP : template NAME", path, ln)
				}
				cs.Families = append(cs.Families, &Family{Pkg: pkg, Pattern: re, Template: tf[1], File: path, Line: ln})
			default: // func type iface ext template
				cur = &Contract{Kind: kw, Pkg: pkg, Key: rest, Loops: map[int]*LoopSpec{}, Flags: map[string]string{}, File: path, Line: ln}
				cur.Assumed = kw != "func"
				if kw == "ext" || kw == "type" || kw == "iface" {
					// optional signature: Key(p1, p2) (r1, r2)
					if j := strings.Index(rest, "("); j > 0 && !strings.HasPrefix(rest, "(") {
						cur.Key = strings.TrimSpace(rest[:j])
						sig := rest[j:]
						k := strings.Index(sig, ")")
						cur.Params = splitNames(sig[1:k])
						if m := strings.Index(sig[k+1:], "("); m >= 0 {
							r := sig[k+1+m+1:]
							r = strings.TrimSuffix(strings.TrimSpace(r), ")")
							cur.Results = splitNames(r)
						}
					} else if strings.HasPrefix(rest, "(") {
						// method on receiver: (*T).M(p1,p2) (r)
						k := strings.Index(rest, ")")
						tail := rest[k+1:]
						if j := strings.Index(tail, "("); j >= 0 {
							cur.Key = strings.TrimSpace(rest[:k+1+j])
							sig := tail[j:]
							k2 := strings.Index(sig, ")")
							cur.Params = splitNames(sig[1:k2])
							if m := strings.Index(sig[k2+1:], "("); m >= 0 {
								r := sig[k2+1+m+1:]
								r = strings.TrimSuffix(strings.TrimSpace(r), ")")
								cur.Results = splitNames(r)
							}
						}
					}
				}
				key := cur.Pkg + "::" + cur.Key
				switch kw {
				case "func", "ext":
					if _, dup := cs.Funcs[key]; dup {
						return fmt.Errorf("%s:%d: duplicate contract for %s", path, ln, key)
					}
					cs.Funcs[key] = cur
				case "type":
					cs.Types[key] = cur
				case "iface":
					cs.Ifaces[key] = cur
				case "template":
					cs.Templates[cur.Key] = cur
				}
			}
		case curSpec != nil:
			curSpec.WriteString(strings.TrimSpace(line) + "\n")
		case curLemma != nil:
			curLemma.Text += strings.TrimSpace(line) + "\n"
		case cur != nil && inModifies && !clauseKeywords[kw] && !blockKeywords[kw]:
			for _, m := range splitTop(strings.TrimSpace(line), ',') {
				m = strings.TrimSpace(m)
				if m == "" {
					continue
				}
				if strings.HasPrefix(m, "@") {
					set, ok := cs.ModSets[m[1:]]
					if !ok {
						return fmt.Errorf("%s:%d: unknown modset %s", path, ln, m)
					}
					cur.Modifies = append(cur.Modifies, set...)
					continue
				}
				cur.Modifies = append(cur.Modifies, m)
			}
		case cur != nil && clauseKeywords[kw]:
			curClause = nil
			inModifies = kw == "modifies"
			switch kw {
			case "prop":
				cur.Props = append(cur.Props, strings.Fields(rest)...)
			case "requires", "ensures", "ensures_panic":
				c := &Clause{Kind: kw, File: path, Line: ln}
				if m := labelRe.FindStringSubmatch(rest); m != nil {
					c.Label = m[1]
					rest = rest[len(m[0]):]
				}
				c.Text = rest
				switch kw {
				case "requires":
					cur.Requires = append(cur.Requires, c)
				case "ensures":
					cur.Ensures = append(cur.Ensures, c)
				case "ensures_panic":
					cur.EnsPanic = append(cur.EnsPanic, c)
				}
				curClause = c
			case "atcall":
				f := strings.Fields(rest)
				if len(f) < 2 {
					return fmt.Errorf("%s:%d: atcall CALLEE [label] EXPR", path, ln)
				}
				body := strings.TrimSpace(strings.TrimPrefix(rest, f[0]))
				c := &Clause{Kind: "atcall", File: path, Line: ln}
				if m := labelRe.FindStringSubmatch(body); m != nil {
					c.Label = m[1]
					body = body[len(m[0]):]
				}
				c.Text = body
				if cur.AtCall == nil {
					cur.AtCall = map[string][]*Clause{}
				}
				cur.AtCall[f[0]] = append(cur.AtCall[f[0]], c)
				curClause = c
			case "atmake":
				c := &Clause{Kind: "atmake", File: path, Line: ln}
				if m := labelRe.FindStringSubmatch(rest); m != nil {
					c.Label = m[1]
					rest = rest[len(m[0]):]
				}
				c.Text = rest
				cur.AtMake = append(cur.AtMake, c)
				curClause = c
			case "atsend":
				c := &Clause{Kind: "atsend", File: path, Line: ln}
				if m := labelRe.FindStringSubmatch(rest); m != nil {
					c.Label = m[1]
					rest = rest[len(m[0]):]
				}
				c.Text = rest
				cur.AtSend = append(cur.AtSend, c)
				curClause = c
			case "oncall":
				f := strings.Fields(rest)
				if len(f) < 2 {
					return fmt.Errorf("%s:%d: oncall PARAM [label] EXPR", path, ln)
				}
				body := strings.TrimSpace(strings.TrimPrefix(rest, f[0]))
				c := &Clause{Kind: "oncall", File: path, Line: ln}
				if m := labelRe.FindStringSubmatch(body); m != nil {
					c.Label = m[1]
					body = body[len(m[0]):]
				}
				c.Text = body
				if cur.OnCall == nil {
					cur.OnCall = map[string][]*Clause{}
				}
				cur.OnCall[f[0]] = append(cur.OnCall[f[0]], c)
				curClause = c
			case "let":
				c := &Clause{Kind: "let", File: path, Line: ln}
				parts := strings.SplitN(rest, "=", 2)
				if len(parts) != 2 {
					return fmt.Errorf("%s:%d: let NAME = EXPR", path, ln)
				}
				c.Label = strings.TrimSpace(parts[0])
				c.Text = strings.TrimSpace(parts[1])
				cur.Lets = append(cur.Lets, c)
				curClause = c
			case "modifies":
				for _, m := range splitTop(rest, ',') {
					m = strings.TrimSpace(m)
					if m == "" {
						continue
					}
					if strings.HasPrefix(m, "@") {
						set, ok := cs.ModSets[m[1:]]
						if !ok {
							return fmt.Errorf("%s:%d: unknown modset %s", path, ln, m)
						}
						cur.Modifies = append(cur.Modifies, set...)
						continue
					}
					cur.Modifies = append(cur.Modifies, m)
				}
			case "use":
				cur.Uses = append(cur.Uses, strings.Fields(rest)...)
			case "stable":
				for _, m := range splitTop(rest, ',') {
					cur.Stable = append(cur.Stable, strings.TrimSpace(m))
				}
			case "loop":
				f := strings.Fields(rest)
				if len(f) < 2 {
					return fmt.Errorf("%s:%d: loop N invariant|decreases|unroll ...", path, ln)
				}
				var ls *LoopSpec
				if n, err := strconv.Atoi(f[0]); err == nil {
					ls = cur.Loops[n]
					if ls == nil {
						ls = &LoopSpec{}
						cur.Loops[n] = ls
					}
				} else if strings.Contains(f[0], ".") {
					if cur.QLoops == nil {
						cur.QLoops = map[string]*LoopSpec{}
					}
					ls = cur.QLoops[f[0]]
					if ls == nil {
						ls = &LoopSpec{}
						cur.QLoops[f[0]] = ls
					}
				} else {
					return fmt.Errorf("%s:%d: loop ordinal: %v", path, ln, err)
				}
				body := strings.TrimSpace(strings.TrimPrefix(strings.TrimSpace(strings.TrimPrefix(rest, f[0])), f[1]))
				switch f[1] {
				case "invariant":
					c := &Clause{Kind: "invariant", File: path, Line: ln}
					if m := labelRe.FindStringSubmatch(body); m != nil {
						c.Label = m[1]
						body = body[len(m[0]):]
					}
					c.Text = body
					ls.Invariants = append(ls.Invariants, c)
					curClause = c
				case "ensures":
					c := &Clause{Kind: "iter_ensures", File: path, Line: ln}
					if m := labelRe.FindStringSubmatch(body); m != nil {
						c.Label = m[1]
						body = body[len(m[0]):]
					}
					c.Text = body
					ls.IterEns = append(ls.IterEns, c)
					curClause = c
				case "decreases":
					ls.Decreases = &Clause{Kind: "decreases", Text: body, File: path, Line: ln}
					curClause = ls.Decreases
				case "unroll":
					ls.Unroll, _ = strconv.Atoi(body)
				default:
					return fmt.Errorf("%s:%d: unknown loop clause %q", path, ln, f[1])
				}
			case "nopanic", "maypanic", "pure", "inline", "noinline", "havoc":
				cur.Flags[kw] = "1"
			case "arith":
				cur.Flags["arith"] = rest
			case "flag":
				f := strings.SplitN(rest, "=", 2)
				if len(f) == 2 {
					cur.Flags[strings.TrimSpace(f[0])] = strings.TrimSpace(f[1])
				} else {
					cur.Flags[strings.TrimSpace(rest)] = "1"
				}
			case "params":
				cur.Params = splitNames(rest)
			case "results":
				cur.Results = splitNames(rest)
			}
		case curClause != nil:
			curClause.Text += " " + strings.TrimSpace(line)
		default:
			return fmt.Errorf("%s:%d: cannot parse contract line: %q", path, ln, raw)
		}
	}
	flushSpec()
	return nil
}

func splitNames(s string) []string {
	var out []string
	for _, p := range strings.Split(s, ",") {
		p = strings.TrimSpace(p)
		if p == "" {
			continue
		}
		out = append(out, strings.Fields(p)[0])
	}
	return out
}

// splitTop splits s at sep occurrences that are not nested in brackets.
func splitTop(s string, sep byte) []string {
	var out []string
	d := 0
	last := 0
	for i := 0; i < len(s); i++ {
		switch s[i] {
		case '(', '[', '{':
			d++
		case ')', ']', '}':
			d--
		default:
			if s[i] == sep && d == 0 {
				out = append(out, s[last:i])
				last = i + 1
			}
		}
	}
	out = append(out, s[last:])
	return out
}

var defineRe = regexp.MustCompile(`\((define-fun-rec|define-fun|declare-fun)\s+([^\s()]+)\s*\(`)

// splitTopLevelForms splits SMT-LIB text into its top-level s-expressions (comments kept with
// the following form).
func splitTopLevelForms(text string) []string {
	var out []string
	d := 0
	start := 0
	inq := false
	incomment := false
	for i := 0; i < len(text); i++ {
		c := text[i]
		if incomment {
			if c == '\n' {
				incomment = false
			}
			continue
		}
		if c == '|' {
			inq = !inq
			continue
		}
		if inq {
			continue
		}
		switch c {
		case ';':
			incomment = true
		case '(':
			d++
		case ')':
			d--
			if d == 0 {
				out = append(out, strings.TrimSpace(text[start:i+1]))
				start = i + 1
			}
		}
	}
	return out
}

type SpecBlock struct {
	Text  string
	Names []string
}

// SpecMacro: a non-recursive define-fun, usable for textual expansion
type SpecMacro struct {
	Params []string
	Body   string
}

// specsFor returns the spec definitions a script body needs (transitively), in file order.
func (cs *ContractSet) specsFor(body string) []string {
	need := make([]bool, len(cs.Blocks))
	changed := true
	text := body
	for changed {
		changed = false
		for i, b := range cs.Blocks {
			if need[i] {
				continue
			}
			for _, n := range b.Names {
				if strings.Contains(text, n) {
					need[i] = true
					changed = true
					text += "\n" + b.Text
					break
				}
			}
		}
	}
	var out []string
	for i, b := range cs.Blocks {
		if need[i] {
			out = append(out, b.Text)
		}
	}
	return out
}

var formNameRe = regexp.MustCompile(`^\((define-fun-rec|define-fun|declare-fun)\s+([^\s()]+)`)

func (cs *ContractSet) addSpec(text string) {
	text = strings.TrimSpace(text)
	if text == "" {
		return
	}
	for _, f := range splitTopLevelForms(text) {
		b := SpecBlock{Text: f}
		// drop leading comment lines for name detection
		body := f
		for strings.HasPrefix(body, ";") {
			if i := strings.IndexByte(body, '\n'); i >= 0 {
				body = strings.TrimSpace(body[i+1:])
			} else {
				body = ""
			}
		}
		if strings.HasPrefix(body, "(assert") {
			// an axiom about a spec function:  ; axiom NAME for SYMBOL   (included with SYMBOL)
			for _, ln := range strings.Split(f, "\n") {
				fl := strings.Fields(ln)
				if len(fl) >= 5 && fl[0] == ";" && fl[1] == "axiom" && fl[3] == "for" {
					b.Names = append(b.Names, fl[4])
					cs.Axioms = append(cs.Axioms, fl[2]+" (about "+fl[4]+")")
				}
			}
		} else if m := formNameRe.FindStringSubmatch(body); m != nil {
			b.Names = []string{m[2]}
			if m[1] == "define-fun" {
				args := sexprArgs(body)
				// (define-fun name ((p S) ...) Ret body)
				if len(args) == 5 {
					var ps []string
					for _, pd := range sexprArgs("(x " + strings.TrimSuffix(strings.TrimPrefix(args[2], "("), ")") + ")")[1:] {
						pa := sexprArgs(pd)
						if len(pa) >= 1 {
							ps = append(ps, pa[0])
						}
					}
					if cs.Macros == nil {
						cs.Macros = map[string]SpecMacro{}
					}
					cs.Macros[m[2]] = SpecMacro{Params: ps, Body: args[4]}
				}
			}
		} else if strings.HasPrefix(body, "(define-funs-rec") {
			for _, ln := range strings.Split(f, "\n") {
				fl := strings.Fields(ln)
				if len(fl) >= 4 && fl[0] == ";" && fl[1] == "sig" {
					b.Names = append(b.Names, fl[2])
				}
			}
		}
		cs.Blocks = append(cs.Blocks, b)
	}
	cs.Specs = append(cs.Specs, text)
	// explicit signatures:  ; sig NAME RETSORT   (needed for define-funs-rec groups)
	for _, ln := range strings.Split(text, "\n") {
		f := strings.Fields(ln)
		if len(f) >= 4 && f[0] == ";" && f[1] == "sig" {
			cs.SpecSyms[f[2]] = specSig{Name: f[2], Ret: strings.Join(f[3:], " ")}
		}
	}
	for _, m := range defineRe.FindAllStringSubmatchIndex(text, -1) {
		name := text[m[4]:m[5]]
		// parameter list starts at the '(' that ends the match
		i := m[1] - 1
		d := 0
		j := i
		for ; j < len(text); j++ {
			if text[j] == '(' {
				d++
			} else if text[j] == ')' {
				d--
				if d == 0 {
					break
				}
			}
		}
		rest := strings.TrimSpace(text[j+1:])
		ret := ""
		if strings.HasPrefix(rest, "(") {
			d = 0
			for k := 0; k < len(rest); k++ {
				if rest[k] == '(' {
					d++
				} else if rest[k] == ')' {
					d--
					if d == 0 {
						ret = rest[:k+1]
						break
					}
				}
			}
		} else {
			f := strings.FieldsFunc(rest, func(r rune) bool { return r == ' ' || r == '\n' || r == ')' || r == '\t' })
			if len(f) > 0 {
				ret = f[0]
			}
		}
		cs.SpecSyms[name] = specSig{Name: name, Ret: ret}
	}
}

func (cs *ContractSet) loadSpecDir(dir string) error {
	files, _ := filepath.Glob(filepath.Join(dir, "*.smt2"))
	sort.Strings(files)
	for _, f := range files {
		b, err := os.ReadFile(f)
		if err != nil {
			return err
		}
		cs.addSpec(string(b))
	}
	return nil
}

func (c *Contract) hasProp(p string) bool {
	for _, q := range c.Props {
		if q == p {
			return true
		}
	}
	return false
}

func (c *Contract) clauseName(cl *Clause) string {
	if cl.Label != "" {
		return cl.Label
	}
	return "h" + scriptHash(cl.Text)[:6]
}


// mergeTemplate adds the clauses of template t to contract c (the template's clauses come first;
// flags and the property list of c win).
func (c *Contract) mergeTemplate(t *Contract) {
	c.Requires = append(append([]*Clause{}, t.Requires...), c.Requires...)
	c.Ensures = append(append([]*Clause{}, t.Ensures...), c.Ensures...)
	c.EnsPanic = append(append([]*Clause{}, t.EnsPanic...), c.EnsPanic...)
	c.Modifies = append(append([]string{}, t.Modifies...), c.Modifies...)
	c.Lets = append(append([]*Clause{}, t.Lets...), c.Lets...)
	c.Stable = append(append([]string{}, t.Stable...), c.Stable...)
	c.AtMake = append(append([]*Clause{}, t.AtMake...), c.AtMake...)
	if len(c.Props) == 0 {
		c.Props = append(c.Props, t.Props...)
	}
	for k, v := range t.Flags {
		if _, ok := c.Flags[k]; !ok {
			c.Flags[k] = v
		}
	}
}

// expandTemplates resolves `use NAME` in function contracts and instantiates
// `funcs REGEXP : template NAME` families for the functions (keys pkg::funcKey) that have no
// contract of their own.
func (cs *ContractSet) expandTemplates(funcKeys []string) error {
	// templates may use templates (no cycles: a template is expanded once, in a few rounds)
	for round := 0; round < 4; round++ {
		for _, c := range cs.Templates {
			if len(c.Uses) == 0 {
				continue
			}
			ready := true
			for _, u := range c.Uses {
				t, ok := cs.Templates[u]
				if !ok {
					return fmt.Errorf("%s:%d: unknown template %s", c.File, c.Line, u)
				}
				if len(t.Uses) > 0 {
					ready = false
				}
			}
			if !ready {
				continue
			}
			for _, u := range c.Uses {
				c.mergeTemplate(cs.Templates[u])
			}
			c.Uses = nil
		}
	}
	for _, c := range cs.Funcs {
		for _, u := range c.Uses {
			t, ok := cs.Templates[u]
			if !ok {
				return fmt.Errorf("%s:%d: unknown template %s", c.File, c.Line, u)
			}
			c.mergeTemplate(t)
		}
		c.Uses = nil
	}
	for _, fam := range cs.Families {
		t, ok := cs.Templates[fam.Template]
		if !ok {
			return fmt.Errorf("%s:%d: unknown template %s", fam.File, fam.Line, fam.Template)
		}
		for _, k := range funcKeys {
			if !strings.HasPrefix(k, fam.Pkg+"::") {
				continue
			}
			name := strings.TrimPrefix(k, fam.Pkg+"::")
			if !fam.Pattern.MatchString(name) {
				continue
			}
			if _, has := cs.Funcs[k]; has {
				continue
			}
			c := &Contract{Kind: "func", Pkg: fam.Pkg, Key: name, Loops: map[int]*LoopSpec{}, Flags: map[string]string{}, File: fam.File, Line: fam.Line}
			c.mergeTemplate(t)
			cs.Funcs[k] = c
		}
	}
	return nil
}
