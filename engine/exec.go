package main

// Symbolic execution of go/ssa function bodies into passive-form VCs.

import (
	"fmt"
	"go/ast"
	"go/token"
	"go/types"
	"sort"
	"strings"

	"golang.org/x/tools/go/ast/astutil"
	"golang.org/x/tools/go/ssa"
)

const maxInlineDepth = 4

type Frame struct {
	vc       *VC
	fn       *ssa.Function
	vals     map[ssa.Value]Value
	depth    int
	parent   *Frame
	id       int
	contract *Contract
	entry    *State // snapshot at entry (for old())
	deferred bool   // this frame is a deferred call run directly by rundefers / the panic path
	// collected
	exits        []*exitRec
	panics       []*State
	defers       []*ssa.Defer
	loops        map[*ssa.BasicBlock]*loopInfo
	names        map[string]ssa.Value // debug names -> unique value
	ambig        map[string]bool
	lets         map[string]bound
	stack        []*ssa.Function
	rc           *runCtx
	back         map[[2]*ssa.BasicBlock]bool
	dry          int
	curLoop      *loopInfo
	clauseIdents map[string]bool
	evalPoint    *ssa.BasicBlock // where a per-iteration / call-site clause is evaluated
}

type exitRec struct {
	st  *State
	res []Value
	pos token.Pos
}

type loopInfo struct {
	header  *ssa.BasicBlock
	blocks  map[*ssa.BasicBlock]bool
	ordinal int
	spec    *LoopSpec
	pos     token.Pos
	// snapshot at the cut
	hdrState *State
	phiVals  map[*ssa.Phi]Value
	measure  Term
	modKeys  []string
}

func (vc *VC) newFrame(fn *ssa.Function, parent *Frame) *Frame {
	vc.ninst++
	fr := &Frame{vc: vc, fn: fn, vals: map[ssa.Value]Value{}, parent: parent, id: vc.ninst, loops: map[*ssa.BasicBlock]*loopInfo{},
		names: map[string]ssa.Value{}, ambig: map[string]bool{}, lets: map[string]bound{}}
	if parent != nil {
		fr.depth = parent.depth + 1
		fr.stack = append(append([]*ssa.Function{}, parent.stack...), fn)
	} else {
		fr.stack = []*ssa.Function{fn}
	}
	fr.contract = vc.eng.contractFor(fn)
	return fr
}

func (fr *Frame) vname(v ssa.Value) string {
	return fmt.Sprintf("%s.%s!%d", fr.fn.Name(), v.Name(), fr.id)
}

// ---------------------------------------------------------------------
// value lookup

func (fr *Frame) val(v ssa.Value) Value {
	if x, ok := fr.vals[v]; ok {
		return x
	}
	vc := fr.vc
	switch c := v.(type) {
	case *ssa.Const:
		return vc.constValue(c)
	case *ssa.Global:
		key := "G." + shortPkg(c.Pkg.Pkg.Path()) + "." + c.Name()
		if !vc.eng.mutGlob[c] {
			key = "GI." + shortPkg(c.Pkg.Pkg.Path()) + "." + c.Name()
		}
		pt := c.Type().(*types.Pointer).Elem()
		if _, ok := isStruct(pt); ok {
			// a global struct object: a fixed reference
			id := vc.globalRef(key)
			return Value{C: []Term{id}}
		}
		if _, ok := isArray(pt); ok {
			id := vc.globalRef(key)
			return Value{C: []Term{id}}
		}
		return Value{C: []Term{vc.globalRef(key)}, Sh: &Shape{Kind: ShGlobal, Key: key, Typ: pt}}
	case *ssa.Function:
		return Value{C: []Term{vc.funcRef(c)}}
	case *ssa.Builtin:
		return Value{C: []Term{"0"}}
	}
	// unknown (e.g. value from a block not executed): fresh
	vc.note("use of a value with no definition on this path: " + v.Name())
	x := vc.freshValue(fr.vname(v), v.Type(), nil)
	fr.vals[v] = x
	return x
}

func (vc *VC) globalRef(key string) Term {
	n := sym("ref:" + key)
	if !vc.declared[n] {
		vc.declare(n, "Int")
		vc.declare(vc.famName(allocKey, 0), allocSort)
		vc.decls = append(vc.decls, "(assert (and (> "+n+" 0) (select "+vc.famName(allocKey, 0)+" "+n+")))")
	}
	return n
}

func (vc *VC) funcRef(fn *ssa.Function) Term {
	n := sym("fn:" + fn.String())
	if vc.funcRefs == nil {
		vc.funcRefs = map[Term]*ssa.Function{}
	}
	vc.funcRefs[n] = fn
	if !vc.declared[n] {
		vc.declare(n, "Int")
		vc.decls = append(vc.decls, "(assert (> "+n+" 0))")
	}
	return n
}

func (vc *VC) constValue(c *ssa.Const) Value {
	t := c.Type()
	if c.Value == nil {
		return zeroValue(t)
	}
	if isStringT(t) {
		return vc.strLit(constantString(c))
	}
	if v, ok := constTerm(c.Value, t); ok {
		if len(v.C) == len(comps(t)) {
			return v
		}
	}
	vc.note("constant not modelled: " + c.String())
	return vc.freshValue("const", t, nil)
}

func constantString(c *ssa.Const) string {
	s := c.Value.ExactString()
	if u, err := strconvUnquote(s); err == nil {
		return u
	}
	return s
}

// ---------------------------------------------------------------------
// memory access

func (vc *VC) objRef(p Value, pointee types.Type) Term {
	// reference identifying the object p points to (struct or array objects)
	return p.C[0]
}

func structKey(t types.Type) string { return "H." + typeKey(t) }

func (vc *VC) fieldPtr(p Value, st types.Type, i int) Value {
	s, _ := isStruct(st)
	f := s.Field(i)
	base := p.C[0]
	fk := structKey(st) + "." + f.Name()
	ft := f.Type()
	if _, ok := isStruct(ft); ok {
		fn := sym("emb:" + fk)
		vc.declareFun(fn, []string{"Int"}, "Int")
		vc.embFact(sApp(fn, base), base)
		return Value{C: []Term{sApp(fn, base)}}
	}
	if _, ok := isArray(ft); ok {
		fn := sym("emb:" + fk)
		vc.declareFun(fn, []string{"Int"}, "Int")
		vc.embFact(sApp(fn, base), base)
		return Value{C: []Term{sApp(fn, base)}}
	}
	fn := sym("fld:" + fk)
	vc.declareFun(fn, []string{"Int"}, "Int")
	return Value{C: []Term{sApp(fn, base)}, Sh: &Shape{Kind: ShField, Key: fk, Base: base, Typ: ft}}
}

// an embedded object exists exactly as long as its container: same allocation status on entry
func (vc *VC) embFact(inner, outer Term) {
	if vc.inQuant > 0 {
		return
	}
	key := inner
	if vc.embSeen == nil {
		vc.embSeen = map[string]bool{}
	}
	if vc.embSeen[key] {
		return
	}
	vc.embSeen[key] = true
	a0 := vc.famName(allocKey, 0)
	vc.declare(a0, allocSort)
	vc.decls = append(vc.decls, "(assert "+sEq(sSel(a0, inner), sSel(a0, outer))+")")
	// the address of a part of an object is nil exactly when the object's address is
	vc.decls = append(vc.decls, "(assert "+sEq(sEq(inner, "0"), sEq(outer, "0"))+")")
	// ... and it is not the address of any separately allocated object
	for _, a := range vc.allocs {
		vc.decls = append(vc.decls, "(assert "+sNot(sEq(a.ref, inner))+")")
	}
	vc.embTerms = append(vc.embTerms, inner)
}

// elemInjective: distinct (array, index) pairs are distinct elements (the address function has
// a left inverse), so writing one element of a slice of structs leaves the others alone.
func (vc *VC) elemInjective(fn, ek string) {
	if vc.embSeen == nil {
		vc.embSeen = map[string]bool{}
	}
	if vc.embSeen["inj:"+fn] {
		return
	}
	vc.embSeen["inj:"+fn] = true
	ia, ii := sym("elem_arr:"+ek), sym("elem_idx:"+ek)
	vc.declareFun(ia, []string{"Int"}, "Int")
	vc.declareFun(ii, []string{"Int"}, "Int")
	vc.decls = append(vc.decls, "(assert (forall ((a!e Int) (i!e Int)) (! (and (= ("+ia+" ("+fn+" a!e i!e)) a!e) (= ("+ii+" ("+fn+" a!e i!e)) i!e)) :pattern (("+fn+" a!e i!e)))))")
	// element objects are no separately allocated objects
	vc.declareFun("is_elem_obj", []string{"Int"}, "Bool")
	vc.decls = append(vc.decls, "(assert (forall ((a!e Int) (i!e Int)) (! (is_elem_obj ("+fn+" a!e i!e)) :pattern (("+fn+" a!e i!e)))))")
	// an element object exists exactly as long as its array (allocation status on entry)
	a0 := vc.famName(allocKey, 0)
	vc.declare(a0, allocSort)
	vc.decls = append(vc.decls, "(assert (forall ((a!e Int) (i!e Int)) (! (= (select "+a0+" ("+fn+" a!e i!e)) (select "+a0+" a!e)) :pattern (("+fn+" a!e i!e)))))")
}

// an element object of an array exists exactly as long as the array: same allocation status on
// entry (so the elements of an array allocated by this activation are invisible to the caller),
// and it is not the reference of any separately allocated object
func (vc *VC) elemFact(elem, arr Term) {
	if vc.inQuant > 0 {
		return
	}
	if vc.embSeen == nil {
		vc.embSeen = map[string]bool{}
	}
	if vc.embSeen["elemfact:"+elem] {
		return
	}
	vc.embSeen["elemfact:"+elem] = true
	a0 := vc.famName(allocKey, 0)
	vc.declare(a0, allocSort)
	vc.emit("(assert " + sEq(sSel(a0, elem), sSel(a0, arr)) + ")")
}

// flatStruct: a struct all of whose fields are scalars, strings, slices, interfaces, pointers
// (no embedded struct or array): its element objects have their fields directly in the H families
func flatStruct(t types.Type) (*types.Struct, bool) {
	s, ok := isStruct(t)
	if !ok {
		return nil, false
	}
	for i := 0; i < s.NumFields(); i++ {
		ft := s.Field(i).Type()
		if _, isS := isStruct(ft); isS {
			return nil, false
		}
		if _, isA := isArray(ft); isA {
			return nil, false
		}
	}
	return s, true
}

// isElemOf: p is an element object of array arr (element type et)
func (vc *VC) isElemOf(p, arr Term, et types.Type) Term {
	ek := "M." + typeKey(et)
	fn := sym("elem:" + ek)
	vc.declareFun(fn, []string{"Int", "Int"}, "Int")
	vc.elemInjective(fn, ek)
	ia, ii := sym("elem_arr:"+ek), sym("elem_idx:"+ek)
	return sAnd(sEq(sApp(ia, p), arr), sEq(p, sApp(fn, arr, sApp(ii, p))))
}

func (vc *VC) elemPtr(arr, idx Term, et types.Type) Value {
	ek := "M." + typeKey(et)
	if _, ok := isStruct(et); ok {
		fn := sym("elem:" + ek)
		vc.declareFun(fn, []string{"Int", "Int"}, "Int")
		vc.elemInjective(fn, ek)
		vc.elemFact(sApp(fn, arr, idx), arr)
		return Value{C: []Term{sApp(fn, arr, idx)}}
	}
	if _, ok := isArray(et); ok {
		fn := sym("elem:" + ek)
		vc.declareFun(fn, []string{"Int", "Int"}, "Int")
		vc.elemInjective(fn, ek)
		vc.elemFact(sApp(fn, arr, idx), arr)
		return Value{C: []Term{sApp(fn, arr, idx)}}
	}
	fn := sym("eaddr:" + ek)
	vc.declareFun(fn, []string{"Int", "Int"}, "Int")
	return Value{C: []Term{sApp(fn, arr, idx)}, Sh: &Shape{Kind: ShElem, Key: ek, Base: arr, Idx: idx, Typ: et}}
}

func (vc *VC) load(st *State, p Value, t types.Type) Value {
	if s, ok := isStruct(t); ok {
		var out Value
		for i := 0; i < s.NumFields(); i++ {
			fp := vc.fieldPtr(p, t, i)
			fv := vc.load(st, fp, s.Field(i).Type())
			out.C = append(out.C, fv.C...)
		}
		return out
	}
	if a, ok := isArray(t); ok {
		var out Value
		ek := "M." + typeKey(a.Elem())
		if _, isS := isStruct(a.Elem()); isS {
			vc.note("array of structs loaded by value: havocked")
			return vc.freshValue("arrval", t, st)
		}
		for _, c := range comps(a.Elem()) {
			m := vc.get(st, ek+c.Suffix, "(Array Int (Array Int "+c.Sort+"))")
			out.C = append(out.C, sSel(m, p.C[0]))
		}
		return out
	}
	sh := p.Sh
	if sh == nil {
		sh = &Shape{Kind: ShCell, Key: "C." + typeKey(t), Base: p.C[0], Typ: t}
	}
	cs := comps(t)
	out := Value{C: make([]Term, len(cs))}
	for i, c := range cs {
		switch sh.Kind {
		case ShCell, ShField:
			a := vc.get(st, sh.Key+c.Suffix, "(Array Int "+c.Sort+")")
			out.C[i] = sSel(a, sh.Base)
		case ShElem:
			a := vc.get(st, sh.Key+c.Suffix, "(Array Int (Array Int "+c.Sort+"))")
			out.C[i] = sSel(sSel(a, sh.Base), sh.Idx)
		case ShGlobal:
			out.C[i] = vc.get(st, sh.Key+c.Suffix, c.Sort)
		}
	}
	// name large terms and state type facts
	for i, c := range cs {
		out.C[i] = vc.define("ld", c.Sort, out.C[i])
	}
	if f := vc.typeFacts(out, t); f != "true" {
		vc.assumeAlways(f)
	}
	if f := vc.allocFacts(st, out, t); f != "true" && vc.inQuant == 0 {
		vc.assume(st, f)
	}
	return out
}

func (vc *VC) store(st *State, p Value, t types.Type, v Value) {
	if s, ok := isStruct(t); ok {
		for i := 0; i < s.NumFields(); i++ {
			lo, hi := fieldRange(s, i)
			fp := vc.fieldPtr(p, t, i)
			vc.store(st, fp, s.Field(i).Type(), Value{C: v.C[lo:hi]})
		}
		return
	}
	if a, ok := isArray(t); ok {
		ek := "M." + typeKey(a.Elem())
		if _, isS := isStruct(a.Elem()); isS {
			vc.note("array of structs stored by value: not modelled")
			return
		}
		for i, c := range comps(a.Elem()) {
			srt := "(Array Int (Array Int " + c.Sort + "))"
			m := vc.get(st, ek+c.Suffix, srt)
			vc.set(st, ek+c.Suffix, srt, sStore(m, p.C[0], v.C[i]))
		}
		return
	}
	sh := p.Sh
	if sh == nil {
		sh = &Shape{Kind: ShCell, Key: "C." + typeKey(t), Base: p.C[0], Typ: t}
	}
	for i, c := range comps(t) {
		switch sh.Kind {
		case ShCell, ShField:
			srt := "(Array Int " + c.Sort + ")"
			a := vc.get(st, sh.Key+c.Suffix, srt)
			vc.set(st, sh.Key+c.Suffix, srt, sStore(a, sh.Base, v.C[i]))
		case ShElem:
			srt := "(Array Int (Array Int " + c.Sort + "))"
			a := vc.get(st, sh.Key+c.Suffix, srt)
			vc.set(st, sh.Key+c.Suffix, srt, sStore(a, sh.Base, sStore(sSel(a, sh.Base), sh.Idx, v.C[i])))
		case ShGlobal:
			vc.set(st, sh.Key+c.Suffix, c.Sort, v.C[i])
		}
	}
}

const allocKey = "ghost.alloc"
const allocSort = "(Array Int Bool)"

// newAlloc: a fresh object. Its reference is a new constant that is not in the set of
// allocated references (ghost.alloc) and is added to it; every reference read from
// parameters, memory or call results is assumed to be in the set at that time, so fresh
// objects alias nothing that existed before (per iteration, when inside a cut loop).
func (vc *VC) newAlloc(st *State, t types.Type, escaped bool) *allocInfo {
	vc.nalloc++
	r := vc.fresh(fmt.Sprintf("new.%d", vc.nalloc), "Int")
	a := &allocInfo{ref: r, typ: t, escaped: escaped}
	al := vc.get(st, allocKey, allocSort)
	vc.assume(st, sAnd(sNot(sSel(al, r)), sNot(sEq(r, "0"))))
	for _, o := range vc.allocs {
		// distinct from the objects this activation made earlier (also implied by the set, stated
		// directly because it is what most proofs need)
		vc.assume(st, sNot(sEq(r, o.ref)))
	}
	for _, t := range vc.embTerms {
		// ... and from the addresses of parts of other objects
		vc.assume(st, sNot(sEq(r, t)))
	}
	// ... and it is not an element object of any array (element objects elem(a, i) are a
	// namespace of their own: see elemInjective)
	vc.declareFun("is_elem_obj", []string{"Int"}, "Bool")
	vc.assumeAlways(sNot(sApp("is_elem_obj", r)))
	// nor is it an element of any map (every reference stored anywhere was allocated before)
	for _, mt := range vc.eng.refMaps {
		m := mt.Underlying().(*types.Map)
		if !refCompatible(m.Elem(), t) {
			continue
		}
		if _, ok := mapKeyTerm(vc, zeroValue(m.Key()), m.Key()); !ok {
			continue
		}
		fam := mapFam(mt)
		has := vc.get(st, fam+".has", "(Array Int (Array Int Bool))")
		val := vc.get(st, fam+".val", "(Array Int (Array Int Int))")
		vc.nfresh++
		qm, qk := sym(fmt.Sprintf("m!q%d", vc.nfresh)), sym(fmt.Sprintf("k!q%d", vc.nfresh))
		sel := "(select (select " + val + " " + qm + ") " + qk + ")"
		vc.assume(st, "(forall (("+qm+" Int) ("+qk+" Int)) (! (=> (select (select "+has+" "+qm+") "+qk+") (not (= "+sel+" "+r+"))) :pattern ("+sel+")))")
	}
	vc.set(st, allocKey, allocSort, sStore(al, r, "true"))
	// a new object starts with clean ghost state (not locked, not done, nothing sent, open)
	for _, g := range []string{"held", "once_done", "wg", "chanclosed", "chansent", "chanrecv", "chanlen"} {
		key := "ghost." + g
		ga := vc.get(st, key, "(Array Int Int)")
		vc.set(st, key, "(Array Int Int)", sStore(ga, r, "0"))
	}
	vc.allocs = append(vc.allocs, a)
	return a
}

// refCompatible: can a reference-like value of static type vt designate an object allocated with type at?
func refCompatible(vt, at types.Type) bool {
	switch u := vt.Underlying().(type) {
	case *types.Chan:
		a, ok := at.Underlying().(*types.Chan)
		return ok && types.Identical(a.Elem(), u.Elem())
	case *types.Map:
		_, ok := at.Underlying().(*types.Map)
		return ok
	case *types.Slice:
		a, ok := at.Underlying().(*types.Array)
		return ok && types.Identical(a.Elem(), u.Elem())
	case *types.Pointer:
		if b, ok := u.Elem().Underlying().(*types.Basic); ok && b.Kind() == types.UnsafePointer {
			return true
		}
		return types.Identical(u.Elem(), at) || types.Identical(u.Elem().Underlying(), at.Underlying())
	}
	return true
}

// allocFacts: references held in a value of type t are nil or allocated in st
func (vc *VC) allocFacts(st *State, v Value, t types.Type) Term {
	if st == nil {
		return "true"
	}
	al := vc.get(st, allocKey, allocSort)
	var fs []Term
	i := 0
	var walk func(t types.Type)
	// Go's type system: a reference of one type never designates an object this activation
	// allocated with an incompatible type
	distinct := func(ref Term, vt types.Type) {
		for _, a := range vc.allocs {
			if !refCompatible(vt, a.typ) {
				fs = append(fs, sNot(sEq(ref, a.ref)))
			}
		}
	}
	walk = func(t types.Type) {
		switch u := t.Underlying().(type) {
		case *types.Pointer, *types.Map, *types.Chan:
			fs = append(fs, sOr(sEq(v.C[i], "0"), sSel(al, v.C[i])))
			distinct(v.C[i], t)
			i++
		case *types.Slice:
			fs = append(fs, sOr(sEq(v.C[i], "0"), sSel(al, v.C[i])))
			distinct(v.C[i], t)
			i += 4
		case *types.Struct:
			for k := 0; k < u.NumFields(); k++ {
				walk(u.Field(k).Type())
			}
		case *types.Tuple:
			for k := 0; k < u.Len(); k++ {
				walk(u.At(k).Type())
			}
		default:
			i += len(comps(t))
		}
	}
	walk(t)
	return sAnd(fs...)
}

// ---------------------------------------------------------------------
// escape analysis for Allocs: does the address reach code we do not execute?

func (fr *Frame) allocEscapes(v ssa.Value, seen map[ssa.Value]bool) bool {
	if seen[v] {
		return false
	}
	seen[v] = true
	refs := v.Referrers()
	if refs == nil {
		return true
	}
	for _, r := range *refs {
		switch in := r.(type) {
		case *ssa.DebugRef:
		case *ssa.UnOp:
			if in.Op != token.MUL {
				return true
			}
		case *ssa.Store:
			if in.Val == v {
				return true
			}
		case *ssa.FieldAddr:
			if fr.allocEscapes(in, seen) {
				return true
			}
		case *ssa.IndexAddr:
			if fr.allocEscapes(in, seen) {
				return true
			}
		case *ssa.Slice:
			return true
		case *ssa.MakeClosure:
			// fine if the closure is only called/deferred directly (we inline it) and the
			// free variable does not escape inside; also fine if the closure runs elsewhere (a
			// goroutine) but only ever reads the captured variable
			cfn := in.Fn.(*ssa.Function)
			if fr.closureEscapes(in) {
				ro := true
				for i, b := range in.Bindings {
					if b == v && !freeVarReadOnly(cfn.FreeVars[i], map[ssa.Value]bool{}) {
						ro = false
					}
				}
				if ro {
					continue
				}
				return true
			}
			for i, b := range in.Bindings {
				if b == v {
					if fr.allocEscapes(cfn.FreeVars[i], seen) {
						return true
					}
				}
			}
		case *ssa.Call:
			// passed as an argument: escapes unless callee is inlined (conservative: escapes),
			// except the sync/atomic and other intrinsics that do not retain it
			if isNonRetaining(in.Common()) {
				continue
			}
			return true
		default:
			return true
		}
	}
	return false
}

// freeVarReadOnly: inside the closure (and closures nested in it) the captured variable is only loaded
func freeVarReadOnly(v ssa.Value, seen map[ssa.Value]bool) bool {
	if seen[v] {
		return true
	}
	seen[v] = true
	refs := v.Referrers()
	if refs == nil {
		return false
	}
	for _, r := range *refs {
		switch in := r.(type) {
		case *ssa.DebugRef:
		case *ssa.UnOp:
			if in.Op != token.MUL {
				return false
			}
		case *ssa.MakeClosure:
			cfn := in.Fn.(*ssa.Function)
			for i, b := range in.Bindings {
				if b == v && !freeVarReadOnly(cfn.FreeVars[i], seen) {
					return false
				}
			}
		default:
			return false
		}
	}
	return true
}

func (fr *Frame) closureEscapes(mc *ssa.MakeClosure) bool {
	refs := mc.Referrers()
	if refs == nil {
		return true
	}
	for _, r := range *refs {
		switch in := r.(type) {
		case *ssa.DebugRef:
		case *ssa.Defer:
			if in.Call.Value != mc {
				return true
			}
		case *ssa.Call:
			if in.Call.Value != mc {
				return true
			}
		default:
			return true
		}
	}
	return false
}

func isNonRetaining(cc *ssa.CallCommon) bool {
	if f := cc.StaticCallee(); f != nil && f.Pkg != nil {
		switch f.Pkg.Pkg.Path() {
		case "sync/atomic":
			return true
		}
	}
	return false
}

// ---------------------------------------------------------------------
// CFG utilities

func rpo(fn *ssa.Function, skipBack map[[2]*ssa.BasicBlock]bool) []*ssa.BasicBlock {
	seen := map[*ssa.BasicBlock]bool{}
	var post []*ssa.BasicBlock
	var dfs func(b *ssa.BasicBlock)
	dfs = func(b *ssa.BasicBlock) {
		seen[b] = true
		for _, s := range b.Succs {
			if skipBack[[2]*ssa.BasicBlock{b, s}] {
				continue
			}
			if !seen[s] {
				dfs(s)
			}
		}
		post = append(post, b)
	}
	dfs(fn.Blocks[0])
	for i, j := 0, len(post)-1; i < j; i, j = i+1, j-1 {
		post[i], post[j] = post[j], post[i]
	}
	return post
}

func (fr *Frame) findLoops() (back map[[2]*ssa.BasicBlock]bool, err error) {
	fn := fr.fn
	back = map[[2]*ssa.BasicBlock]bool{}
	for _, b := range fn.Blocks {
		for _, s := range b.Succs {
			if s.Dominates(b) {
				back[[2]*ssa.BasicBlock{b, s}] = true
				li := fr.loops[s]
				if li == nil {
					li = &loopInfo{header: s, blocks: map[*ssa.BasicBlock]bool{s: true}}
					fr.loops[s] = li
				}
				// natural loop body: nodes that reach b without passing through s
				var stack []*ssa.BasicBlock
				if !li.blocks[b] {
					li.blocks[b] = true
					stack = append(stack, b)
				}
				for len(stack) > 0 {
					x := stack[len(stack)-1]
					stack = stack[:len(stack)-1]
					for _, p := range x.Preds {
						if !li.blocks[p] {
							li.blocks[p] = true
							stack = append(stack, p)
						}
					}
				}
			}
		}
	}
	// check reducibility: every retreating edge in a DFS must be a back edge found above
	order := rpo(fn, back)
	idx := map[*ssa.BasicBlock]int{}
	for i, b := range order {
		idx[b] = i
	}
	for _, b := range order {
		for _, s := range b.Succs {
			if back[[2]*ssa.BasicBlock{b, s}] {
				continue
			}
			if j, ok := idx[s]; ok && j <= idx[b] {
				return nil, fmt.Errorf("irreducible control flow in %s", fn)
			}
		}
	}
	// loop ordinals: by source position of the for/range statement
	var hdrs []*loopInfo
	for _, li := range fr.loops {
		li.pos = fr.loopPos(li)
		hdrs = append(hdrs, li)
	}
	sort.Slice(hdrs, func(i, j int) bool {
		if hdrs[i].pos != hdrs[j].pos {
			return hdrs[i].pos < hdrs[j].pos
		}
		return hdrs[i].header.Index < hdrs[j].header.Index
	})
	// match to source loops: each SSA loop belongs to the innermost for/range statement that
	// contains most of its positioned instructions (an instruction can carry a position from
	// elsewhere, e.g. a named result, so the smallest position alone is not reliable); when that
	// gives a one-to-one matching, ordinals follow the source order of the statements
	srcLoops := fr.sourceLoops()
	if rng := fr.sourceLoopRanges(); len(rng) == len(hdrs) && len(rng) > 1 {
		match := make([]int, len(hdrs))
		used := map[int]bool{}
		okAll := true
		for hi, li := range hdrs {
			best, bestN, bestSize := -1, 0, token.Pos(0)
			for k, r := range rng {
				n := 0
				for b := range li.blocks {
					for _, in := range b.Instrs {
						if p := in.Pos(); p.IsValid() && p >= r[0] && p < r[1] {
							n++
						}
					}
				}
				size := r[1] - r[0]
				if n > bestN || (n == bestN && n > 0 && size < bestSize) {
					best, bestN, bestSize = k, n, size
				}
			}
			if best < 0 || used[best] {
				okAll = false
				break
			}
			used[best] = true
			match[hi] = best
		}
		if okAll {
			sorted := make([]*loopInfo, len(hdrs))
			for hi, li := range hdrs {
				sorted[match[hi]] = li
			}
			hdrs = sorted
		}
	}
	for i, li := range hdrs {
		li.ordinal = i + 1
		if len(srcLoops) == len(hdrs) {
			li.pos = srcLoops[i]
		}
		if fr.contract != nil && (fr.parent == nil || fr.contract.Flags["inline"] != "") {
			li.spec = fr.contract.Loops[li.ordinal]
		}
		if li.spec == nil && fr.parent != nil && fr.vc.contract != nil && fr.vc.contract.QLoops != nil {
			li.spec = fr.vc.contract.QLoops[fmt.Sprintf("%s.%d", fr.fn.Name(), li.ordinal)]
		}
	}
	return back, nil
}

// position estimate for a loop: smallest instruction position in the loop blocks
func (fr *Frame) loopPos(li *loopInfo) token.Pos {
	var best token.Pos
	for b := range li.blocks {
		for _, in := range b.Instrs {
			p := in.Pos()
			if p.IsValid() && (best == 0 || p < best) {
				best = p
			}
		}
	}
	return best
}

// sourceLoopRanges: [Pos, End) of every for/range statement of the function, in source order.
func (fr *Frame) sourceLoopRanges() [][2]token.Pos {
	syn := fr.fn.Syntax()
	if syn == nil {
		return nil
	}
	var body ast.Node
	switch n := syn.(type) {
	case *ast.FuncDecl:
		body = n.Body
	case *ast.FuncLit:
		body = n.Body
	}
	if body == nil {
		return nil
	}
	var out [][2]token.Pos
	ast.Inspect(body, func(n ast.Node) bool {
		switch n.(type) {
		case *ast.FuncLit:
			return false
		case *ast.ForStmt, *ast.RangeStmt:
			out = append(out, [2]token.Pos{n.Pos(), n.End()})
		}
		return true
	})
	return out
}

func (fr *Frame) sourceLoops() []token.Pos {
	syn := fr.fn.Syntax()
	if syn == nil {
		return nil
	}
	var out []token.Pos
	var body ast.Node
	switch n := syn.(type) {
	case *ast.FuncDecl:
		body = n.Body
	case *ast.FuncLit:
		body = n.Body
	}
	if body == nil {
		return nil
	}
	ast.Inspect(body, func(n ast.Node) bool {
		switch n.(type) {
		case *ast.FuncLit:
			return false
		case *ast.ForStmt, *ast.RangeStmt:
			out = append(out, n.Pos())
		}
		return true
	})
	return out
}

// ---------------------------------------------------------------------
// body execution

type bodyResult struct {
	normal  *State  // nil if no normal exit
	results []Value // merged results
	panicSt *State  // nil if cannot panic
}

func (fr *Frame) bindDebugNames() {
	for _, b := range fr.fn.Blocks {
		for _, in := range b.Instrs {
			switch d := in.(type) {
			case *ssa.DebugRef:
				id, ok := d.Expr.(*ast.Ident)
				if !ok {
					continue
				}
				name := id.Name
				if prev, ok := fr.names[name]; ok && prev != d.X {
					// a Phi and its operands all carry the name: prefer ... ambiguous
					fr.ambig[name] = true
				}
				fr.names[name] = d.X
			}
		}
	}
	for _, b := range fr.fn.Blocks {
		for _, in := range b.Instrs {
			if a, ok := in.(*ssa.Alloc); ok && a.Comment != "" {
				// address-taken local: name refers to the cell
				fr.names["&"+a.Comment] = a
			}
		}
	}
}

type runCtx struct {
	back        map[[2]*ssa.BasicBlock]bool
	in          map[*ssa.BasicBlock][]*State
	edgeSt      map[[2]*ssa.BasicBlock]*State
	region      map[*ssa.BasicBlock]bool // nil = whole function
	dryHeader   *ssa.BasicBlock
	dryMods     map[string]bool
	dryAll      bool
	dryAllGhost bool
}

func (fr *Frame) execBody(entry *State) (*bodyResult, error) {
	fn := fr.fn
	if len(fn.Blocks) == 0 {
		return nil, fmt.Errorf("no body for %s", fn)
	}
	back, err := fr.findLoops()
	if err != nil {
		return nil, err
	}
	fr.back = back
	fr.bindDebugNames()
	order := rpo(fn, back)
	rc := &runCtx{back: back, in: map[*ssa.BasicBlock][]*State{}, edgeSt: map[[2]*ssa.BasicBlock]*State{}}
	rc.in[fn.Blocks[0]] = []*State{entry}
	if err := fr.runBlocks(order, rc); err != nil {
		return nil, err
	}
	return fr.finish()
}

func (fr *Frame) runBlocks(order []*ssa.BasicBlock, rc *runCtx) error {
	vc := fr.vc
	fn := fr.fn
	saved := fr.rc
	fr.rc = rc
	defer func() { fr.rc = saved }()
	for _, b := range order {
		if fn.Recover != nil && b == fn.Recover && rc.region == nil {
			if len(rc.in[b]) == 0 {
				continue
			}
		}
		if rc.region != nil && !rc.region[b] {
			continue
		}
		sts := rc.in[b]
		if len(sts) == 0 {
			continue
		}
		var preds []*ssa.BasicBlock
		var pstates []*State
		for _, p := range b.Preds {
			if es, ok := rc.edgeSt[[2]*ssa.BasicBlock{p, b}]; ok {
				preds = append(preds, p)
				pstates = append(pstates, es)
			}
		}
		var st *State
		if len(pstates) == 0 {
			st = vc.merge(sts).clone()
		} else {
			st = vc.merge(pstates).clone()
		}
		li := fr.loops[b]
		if li != nil && rc.dryHeader != b {
			if err := fr.cutLoop(li, st, preds, pstates); err != nil {
				return err
			}
		} else if li == nil {
			for _, ins := range b.Instrs {
				phi, ok := ins.(*ssa.Phi)
				if !ok {
					break
				}
				fr.vals[phi] = fr.phiValue(phi, b, preds, pstates)
			}
		}
		if err := fr.execBlock(b, st); err != nil {
			return err
		}
	}
	return nil
}

func (fr *Frame) phiValue(phi *ssa.Phi, b *ssa.BasicBlock, preds []*ssa.BasicBlock, pstates []*State) Value {
	vc := fr.vc
	cs := comps(phi.Type())
	var vals []Value
	for _, p := range preds {
		for i, bp := range b.Preds {
			if bp == p {
				vals = append(vals, fr.val(phi.Edges[i]))
				break
			}
		}
	}
	if len(vals) == 0 {
		return vc.freshValue(fr.vname(phi), phi.Type(), nil)
	}
	out := Value{C: make([]Term, len(cs))}
	for k := range cs {
		t := vals[len(vals)-1].C[k]
		for i := len(vals) - 2; i >= 0; i-- {
			t = sIte(pstates[i].reach, vals[i].C[k], t)
		}
		out.C[k] = vc.define(fr.vname(phi), cs[k].Sort, t)
	}
	// shape survives only if all identical
	sh := vals[0].Sh
	for _, v := range vals[1:] {
		if !sameShape(sh, v.Sh) {
			sh = nil
		}
	}
	out.Sh = sh
	return out
}

func sameShape(a, b *Shape) bool {
	if a == nil || b == nil {
		return a == b
	}
	return a.Kind == b.Kind && a.Key == b.Key && a.Base == b.Base && a.Idx == b.Idx
}

func (fr *Frame) execBlock(b *ssa.BasicBlock, st *State) error {
	vc := fr.vc
	for _, ins := range b.Instrs {
		if _, ok := ins.(*ssa.Phi); ok {
			continue
		}
		if ins.Pos().IsValid() {
			vc.curPos = ins.Pos()
		}
		switch t := ins.(type) {
		case *ssa.If:
			c := fr.val(t.Cond).C[0]
			c = vc.defineBool(fr.fn.Name()+".cond", c)
			fr.edge(b, b.Succs[0], st, c)
			fr.edge(b, b.Succs[1], st, sNot(c))
			return nil
		case *ssa.Jump:
			fr.edge(b, b.Succs[0], st, "true")
			return nil
		case *ssa.Return:
			var res []Value
			for _, r := range t.Results {
				res = append(res, fr.val(r))
			}
			fr.exits = append(fr.exits, &exitRec{st: st, res: res, pos: t.Pos()})
			return nil
		case *ssa.Panic:
			ps := st.clone()
			ps.panicVal = fr.val(t.X)
			fr.addPanic(ps)
			return nil
		default:
			if err := fr.execInstr(ins, st); err != nil {
				return err
			}
		}
	}
	return nil
}

func (vc *VC) defineBool(prefix string, c Term) Term {
	if len(c) <= 60 || vc.inQuant > 0 {
		return c
	}
	n := vc.fresh(prefix, "Bool")
	vc.emit("(assert (= " + n + " " + c + "))")
	return n
}

func (fr *Frame) edge(from, to *ssa.BasicBlock, st *State, cond Term) {
	rc := fr.rc
	es := st.clone()
	es.reach = sAnd(st.reach, cond)
	if len(es.reach) > 200 {
		n := fr.vc.fresh("reach", "Bool")
		fr.vc.emit("(assert (= " + n + " " + es.reach + "))")
		es.reach = n
	}
	if rc.back[[2]*ssa.BasicBlock{from, to}] {
		if rc.dryHeader == to {
			fr.dryRecord(fr.loops[to], es)
			return
		}
		fr.backEdge(fr.loops[to], from, es)
		return
	}
	if rc.region != nil && !rc.region[to] {
		return
	}
	rc.edgeSt[[2]*ssa.BasicBlock{from, to}] = es
	rc.in[to] = append(rc.in[to], es)
}

func (fr *Frame) addPanic(ps *State) {
	fr.panics = append(fr.panics, ps)
}

// ---------------------------------------------------------------------
// finish: merge exits, run the exceptional path

func (fr *Frame) finish() (*bodyResult, error) {
	vc := fr.vc
	fn := fr.fn
	res := &bodyResult{}
	// exceptional path
	if len(fr.panics) > 0 {
		ps := vc.merge(fr.panics).clone()
		ps.panicking = true
		ps.recovered = "false"
		if len(fr.panics) > 0 {
			ps.panicVal = fr.panics[0].panicVal
			if len(ps.panicVal.C) == 0 || len(fr.panics) > 1 {
				pv := Value{C: []Term{vc.fresh("panic.typ", "Int"), vc.fresh("panic.val", "Int")}}
				vc.assumeAlways("(> " + pv.C[0] + " 0)")
				ps.panicVal = pv
			}
		}
		var extra []*State
		if len(fr.defers) > 0 {
			fr.panics = nil
			if err := fr.runDefers(ps, true); err != nil {
				return nil, err
			}
			extra = fr.panics
			fr.panics = nil
		}
		rec := ps.recovered
		if rec != "false" {
			// recovered: control resumes in the Recover block (or returns zero values)
			rs := ps.clone()
			rs.reach = sAnd(ps.reach, rec)
			rs.panicking = false
			rs.recovered = ""
			if fn.Recover != nil {
				rc := &runCtx{back: fr.back, in: map[*ssa.BasicBlock][]*State{}, edgeSt: map[[2]*ssa.BasicBlock]*State{}}
				rc.in[fn.Recover] = []*State{rs}
				var order []*ssa.BasicBlock
				seen := map[*ssa.BasicBlock]bool{}
				var dfs func(b *ssa.BasicBlock)
				var post []*ssa.BasicBlock
				dfs = func(b *ssa.BasicBlock) {
					seen[b] = true
					for _, s := range b.Succs {
						if !seen[s] && !fr.back[[2]*ssa.BasicBlock{b, s}] {
							dfs(s)
						}
					}
					post = append(post, b)
				}
				dfs(fn.Recover)
				for i := len(post) - 1; i >= 0; i-- {
					order = append(order, post[i])
				}
				if err := fr.runBlocks(order, rc); err != nil {
					return nil, err
				}
			} else {
				var zr []Value
				rt := fn.Signature.Results()
				for i := 0; i < rt.Len(); i++ {
					zr = append(zr, zeroValue(rt.At(i).Type()))
				}
				fr.exits = append(fr.exits, &exitRec{st: rs, res: zr})
			}
		}
		if rec != "true" {
			ps.reach = sAnd(ps.reach, sNot(rec))
			ps.recovered = ""
			extra = append(extra, ps)
		}
		// panics raised while the recover block ran
		extra = append(extra, fr.panics...)
		if len(extra) > 0 {
			res.panicSt = vc.merge(extra).clone()
			res.panicSt.panicking = true
		}
	}
	if len(fr.exits) > 0 {
		var sts []*State
		for _, e := range fr.exits {
			sts = append(sts, e.st)
		}
		res.normal = vc.merge(sts).clone()
		n := fn.Signature.Results().Len()
		res.results = make([]Value, n)
		for i := 0; i < n; i++ {
			cs := comps(fn.Signature.Results().At(i).Type())
			v := Value{C: make([]Term, len(cs))}
			for k := range cs {
				t := fr.exits[len(fr.exits)-1].res[i].C[k]
				for j := len(fr.exits) - 2; j >= 0; j-- {
					t = sIte(fr.exits[j].st.reach, fr.exits[j].res[i].C[k], t)
				}
				v.C[k] = vc.define(fn.Name()+".res", cs[k].Sort, t)
			}
			res.results[i] = v
		}
	}
	return res, nil
}

// runDefers executes the registered deferred calls in LIFO order on st.
func (fr *Frame) runDefers(st *State, exceptional bool) error {
	for i := len(fr.defers) - 1; i >= 0; i-- {
		d := fr.defers[i]
		on, ok := st.deferOn[d]
		if !ok || on == "false" {
			continue
		}
		st.deferOn[d] = "false"
		if on == "true" {
			if err := fr.execDeferredCall(d, st); err != nil {
				return err
			}
			continue
		}
		// conditional: split and merge
		on = fr.vc.defineBool("deferOn", on)
		a := st.clone()
		a.reach = sAnd(st.reach, on)
		if err := fr.execDeferredCall(d, a); err != nil {
			return err
		}
		b := st.clone()
		b.reach = sAnd(st.reach, sNot(on))
		m := fr.vc.merge([]*State{a, b})
		*st = *m.clone()
	}
	return nil
}

func (fr *Frame) execDeferredCall(d *ssa.Defer, st *State) error {
	_, err := fr.execCall(&d.Call, st, d, true)
	return err
}

// ---------------------------------------------------------------------
// source text helpers

func (fr *Frame) srcText(pos token.Pos, want func(ast.Node) bool) string {
	f := fr.vc.eng.fileOf(pos)
	if f == nil {
		return ""
	}
	path, _ := astutil.PathEnclosingInterval(f, pos, pos)
	for _, n := range path {
		if want(n) {
			return fr.vc.eng.nodeText(n)
		}
	}
	return ""
}

func cleanName(s string) string {
	s = strings.ReplaceAll(s, "\n", " ")
	return s
}
