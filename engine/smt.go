package main

// SMT term construction (plain strings in SMT-LIB 2 syntax) and the solver
// portfolio. Integers are mathematical Ints in the default mode; see ops.go
// for the wrap/range handling.

import (
	"bytes"
	"context"
	"crypto/sha256"
	"encoding/hex"
	"fmt"
	"os"
	"os/exec"
	"path/filepath"
	"strings"
	"sync"
	"sync/atomic"
	"time"
)

type Term = string

func sApp(op string, args ...Term) Term {
	if len(args) == 0 {
		return op
	}
	return "(" + op + " " + strings.Join(args, " ") + ")"
}

func sInt(n int64) Term {
	if n < 0 {
		return fmt.Sprintf("(- %d)", -n)
	}
	return fmt.Sprintf("%d", n)
}

func sBigStr(s string) Term { // decimal string, may be negative
	if strings.HasPrefix(s, "-") {
		return "(- " + s[1:] + ")"
	}
	return s
}

func sBool(b bool) Term {
	if b {
		return "true"
	}
	return "false"
}

func sAnd(ts ...Term) Term {
	var out []Term
	for _, t := range ts {
		if t == "true" {
			continue
		}
		if t == "false" {
			return "false"
		}
		out = append(out, t)
	}
	if len(out) == 0 {
		return "true"
	}
	if len(out) == 1 {
		return out[0]
	}
	return sApp("and", out...)
}

func sOr(ts ...Term) Term {
	var out []Term
	for _, t := range ts {
		if t == "false" {
			continue
		}
		if t == "true" {
			return "true"
		}
		out = append(out, t)
	}
	if len(out) == 0 {
		return "false"
	}
	if len(out) == 1 {
		return out[0]
	}
	return sApp("or", out...)
}

func sNot(t Term) Term {
	if t == "true" {
		return "false"
	}
	if t == "false" {
		return "true"
	}
	if strings.HasPrefix(t, "(not ") && balanced(t[5:len(t)-1]) {
		return t[5 : len(t)-1]
	}
	return "(not " + t + ")"
}

func balanced(s string) bool {
	d := 0
	inq := false
	for i := 0; i < len(s); i++ {
		c := s[i]
		if c == '|' {
			inq = !inq
		}
		if inq {
			continue
		}
		if c == '(' {
			d++
		} else if c == ')' {
			d--
			if d < 0 {
				return false
			}
		} else if c == ' ' && d == 0 {
			return false
		}
	}
	return d == 0
}

func sImp(a, b Term) Term {
	if a == "true" {
		return b
	}
	if a == "false" || b == "true" {
		return "true"
	}
	return "(=> " + a + " " + b + ")"
}

func sIte(c, a, b Term) Term {
	if c == "true" {
		return a
	}
	if c == "false" {
		return b
	}
	if a == b {
		return a
	}
	return "(ite " + c + " " + a + " " + b + ")"
}

func sEq(a, b Term) Term {
	if a == b {
		return "true"
	}
	return "(= " + a + " " + b + ")"
}

// sSel simplifies select-of-store on syntactically equal (or distinct literal) indices.
func sSel(a, i Term) Term {
	for strings.HasPrefix(a, "(store ") {
		args := sexprArgs(a)
		if len(args) != 4 {
			break
		}
		if args[2] == i {
			return args[3]
		}
		if _, ok1 := isBigConst(args[2]); ok1 {
			if _, ok2 := isBigConst(i); ok2 {
				a = args[1]
				continue
			}
		}
		break
	}
	return "(select " + a + " " + i + ")"
}

// sexprArgs splits "(f a b c)" into [f a b c] at the top level.
func sexprArgs(t string) []string {
	if len(t) < 2 || t[0] != '(' || t[len(t)-1] != ')' {
		return nil
	}
	body := t[1 : len(t)-1]
	var out []string
	d := 0
	start := -1
	inq := false
	for k := 0; k < len(body); k++ {
		c := body[k]
		if c == '|' {
			inq = !inq
			if start < 0 {
				start = k
			}
			continue
		}
		if inq {
			continue
		}
		switch c {
		case '(':
			if d == 0 && start < 0 {
				start = k
			}
			d++
		case ')':
			d--
		case ' ':
			if d == 0 && start >= 0 {
				out = append(out, body[start:k])
				start = -1
			}
		default:
			if start < 0 {
				start = k
			}
		}
	}
	if start >= 0 {
		out = append(out, body[start:])
	}
	return out
}
func sStore(a, i, v Term) Term { return "(store " + a + " " + i + " " + v + ")" }

// quote a symbol
func sym(s string) string {
	ok := true
	for _, c := range s {
		if !(c >= 'a' && c <= 'z' || c >= 'A' && c <= 'Z' || c >= '0' && c <= '9' || c == '_' || c == '.' || c == '!' || c == '$') {
			ok = false
			break
		}
	}
	if ok && len(s) > 0 && !(s[0] >= '0' && s[0] <= '9') {
		return s
	}
	s = strings.ReplaceAll(s, "|", "!")
	s = strings.ReplaceAll(s, "\\", "!")
	return "|" + s + "|"
}

// ---------------------------------------------------------------------
// Solver portfolio

type SolverResult struct {
	Status  string // unsat | sat | unknown | timeout | error
	Solver  string
	Seconds float64
	Output  string // full output of the answering solver (model when sat)
	Second  string // thorough tier: the second solver that confirmed unsat ("" if none)
}

type solverSpec struct {
	name string
	argv func(file string, timeoutS int) []string
}

var solvers = []solverSpec{
	{"z3-5.1.0", func(f string, t int) []string {
		return []string{"z3-new", fmt.Sprintf("-T:%d", t), "-smt2", f}
	}},
	{"cvc5-1.0", func(f string, t int) []string {
		return []string{"cvc5", "--incremental", fmt.Sprintf("--tlimit=%d", t*1000), f}
	}},
	{"z3-4.8.12", func(f string, t int) []string {
		return []string{"/usr/bin/z3", fmt.Sprintf("-T:%d", t), "-smt2", f}
	}},
}

var solveSeq int64

var (
	cacheDir   string
	cacheMu    sync.Mutex
	useCache   = true
	scratchDir string
)

func scriptHash(script string) string {
	h := sha256.Sum256([]byte(script))
	return hex.EncodeToString(h[:16])
}

func cacheGet(h string) (string, bool) {
	if !useCache || cacheDir == "" {
		return "", false
	}
	b, err := os.ReadFile(filepath.Join(cacheDir, h[:2], h))
	if err != nil {
		return "", false
	}
	return strings.TrimSpace(string(b)), true
}

func cachePut(h, solver string) {
	if cacheDir == "" {
		return
	}
	d := filepath.Join(cacheDir, h[:2])
	os.MkdirAll(d, 0o755)
	os.WriteFile(filepath.Join(d, h), []byte(solver+"\n"), 0o644)
}

func runOne(ctx context.Context, sp solverSpec, file string, timeoutS int) (status, out string, secs float64) {
	argv := sp.argv(file, timeoutS)
	t0 := time.Now()
	cctx, cancel := context.WithTimeout(ctx, time.Duration(timeoutS+2)*time.Second)
	defer cancel()
	cmd := exec.CommandContext(cctx, argv[0], argv[1:]...)
	var buf bytes.Buffer
	cmd.Stdout = &buf
	cmd.Stderr = &buf
	_ = cmd.Run()
	secs = time.Since(t0).Seconds()
	out = buf.String()
	first := strings.TrimSpace(out)
	if i := strings.IndexByte(first, '\n'); i >= 0 {
		first = strings.TrimSpace(first[:i])
	}
	switch first {
	case "unsat", "sat", "unknown":
		status = first
	case "timeout":
		status = "timeout"
	default:
		if cctx.Err() != nil {
			status = "timeout"
		} else if strings.Contains(out, "timeout") || strings.Contains(out, "interrupted") {
			status = "timeout"
		} else {
			status = "error"
		}
	}
	return
}

// solve runs the portfolio on a script. wantModel: append (get-model) so a
// sat answer carries values. confirm: a second solver must agree on unsat.
func solve(script string, timeoutS int, confirm bool) SolverResult {
	h := scriptHash(script)
	if !confirm {
		if s, ok := cacheGet(h); ok {
			return SolverResult{Status: "unsat", Solver: s + " (cached)"}
		}
	}
	// unique per call: two obligations can have the same script (same hash) and run concurrently
	seq := atomic.AddInt64(&solveSeq, 1)
	f := filepath.Join(scratchDir, fmt.Sprintf("%s-%d.smt2", h, seq))
	if err := os.WriteFile(f, []byte(script), 0o644); err != nil {
		return SolverResult{Status: "error", Output: err.Error()}
	}
	defer os.Remove(f)
	ctx, cancel := context.WithCancel(context.Background())
	defer cancel()
	type ans struct {
		status, out, solver string
		secs                float64
	}
	nrun := len(solvers)
	ch := make(chan ans, len(solvers)+1)
	for _, sp := range solvers {
		sp := sp
		go func() {
			st, out, secs := runOne(ctx, sp, f, timeoutS)
			ch <- ans{st, out, sp.name, secs}
		}()
	}
	// a weaker query as an extra portfolio member: the same script without its quantified
	// assumptions. Fewer assumptions, so `unsat` is still a proof; any other answer of this
	// member is ignored. It decides the many goals that are plain arithmetic over a context
	// whose quantifiers only slow the solvers down.
	if lite, ok := stripQuantified(script); ok {
		fl := filepath.Join(scratchDir, fmt.Sprintf("%s-%d.lite.smt2", h, seq))
		if err := os.WriteFile(fl, []byte(lite), 0o644); err == nil {
			defer os.Remove(fl)
			nrun++
			go func() {
				st, out, secs := runOne(ctx, solvers[0], fl, timeoutS)
				if st != "unsat" {
					st, out = "unknown", "(quantifier-free variant: no answer)"
				}
				ch <- ans{st, out, solvers[0].name + " (quantifier-free variant)", secs}
			}()
		}
	}
	var res SolverResult
	res.Status = "unknown"
	var unsatBy []string
	var notes []string
	got := 0
	for got < nrun {
		a := <-ch
		got++
		switch a.status {
		case "unsat":
			unsatBy = append(unsatBy, a.solver)
			if res.Status != "unsat" {
				res = SolverResult{Status: "unsat", Solver: a.solver, Seconds: a.secs, Output: a.out}
			}
			if !confirm || len(unsatBy) >= 2 {
				if len(unsatBy) >= 2 {
					res.Second = unsatBy[1]
				}
				cancel()
				cachePut(h, res.Solver)
				return res
			}
		case "sat":
			if res.Status == "unsat" {
				// disagreement between solvers: report as error, never as proof
				return SolverResult{Status: "error", Solver: a.solver + " vs " + res.Solver, Output: "solver disagreement: sat vs unsat"}
			}
			cancel()
			return SolverResult{Status: "sat", Solver: a.solver, Seconds: a.secs, Output: a.out}
		default:
			notes = append(notes, a.solver+": "+a.status+" "+firstLine(a.out))
			if res.Status != "unsat" {
				if a.status == "timeout" && res.Status != "timeout" {
					res.Status = "timeout"
				}
				res.Seconds = maxf(res.Seconds, a.secs)
			}
		}
	}
	if res.Status == "unsat" {
		cachePut(h, res.Solver)
		return res
	}
	res.Output = strings.Join(notes, "; ")
	return res
}

// stripQuantified drops every top-level (assert ...) that contains a quantifier, except the last
// assertion (the negated goal). ok=false when nothing was dropped or the goal itself is quantified.
func stripQuantified(script string) (string, bool) {
	lines := strings.Split(script, "\n")
	last := -1
	for i, l := range lines {
		if strings.HasPrefix(l, "(assert ") {
			last = i
		}
	}
	if last < 0 || strings.Contains(lines[last], "(forall ") || strings.Contains(lines[last], "(exists ") {
		return "", false
	}
	dropped := false
	out := make([]string, 0, len(lines))
	for i, l := range lines {
		if i != last && strings.HasPrefix(l, "(assert ") && (strings.Contains(l, "(forall ") || strings.Contains(l, "(exists ")) {
			dropped = true
			continue
		}
		out = append(out, l)
	}
	return strings.Join(out, "\n"), dropped
}

func firstLine(s string) string {
	s = strings.TrimSpace(s)
	if i := strings.IndexByte(s, '\n'); i >= 0 {
		s = s[:i]
	}
	if len(s) > 200 {
		s = s[:200]
	}
	return s
}

func maxf(a, b float64) float64 {
	if a > b {
		return a
	}
	return b
}
