package main

// Structural obligations: facts about the SSA of the current tree that are
// decided by analysis of the code rather than by an SMT query (atomic
// read-modify-write discipline, encapsulation of representation fields,
// goroutine roots and recover frames, lock discipline).
//
//   rule atomic_rmw Struct.field prop=.. : no sync/atomic Store/Swap to the field stores a value
//        computed from an earlier read of the same field (a lost-update window);
//        CompareAndSwap is the accepted way to do that.
//   rule atomic_only Struct.field [except=F,G] prop=.. : the field is accessed only through
//        sync/atomic (except in the listed functions, e.g. constructors).
//   rule encapsulated Struct.field funcs=F,G,.. prop=.. : only the listed functions touch the field.
//   rule goroutine_roots prop=.. [assume=F,G] : every `go` statement of the package starts a function that
//        cannot let a panic escape: it defers (unconditionally, first thing) a function that calls
//        recover() itself, or it has a verified `nopanic` contract.
//   rule recovers Func prop=.. : Func defers, before anything that can panic, a function that calls
//        recover() directly.

import (
	"fmt"
	"go/ast"
	"go/constant"
	"reflect"
	"regexp"
	"go/token"
	"go/types"
	"sort"
	"strings"

	"golang.org/x/tools/go/ssa"
)

func (e *Engine) structuralObligations(prop string) []*Obligation {
	var out []*Obligation
	for _, r := range e.cs.Rules {
		ok := false
		for _, p := range r.Props {
			if p == prop {
				ok = true
			}
		}
		if !ok {
			continue
		}
		out = append(out, e.evalRule(r)...)
	}
	return out
}

func (e *Engine) pkgFunctions(pkg string) []*ssa.Function {
	var out []*ssa.Function
	for k, fn := range e.funcs {
		if strings.HasPrefix(k, pkg+"::") {
			out = append(out, fn)
		}
	}
	sort.Slice(out, func(i, j int) bool { return e.fnKey[out[i]] < e.fnKey[out[j]] })
	return out
}

func (e *Engine) structObl(r *StructRule, name string, ok bool, msg string) *Obligation {
	return &Obligation{Name: shortPkg(r.Pkg) + "#struct:" + r.Kind + ":" + name, Kind: "struct", Struct: true, StructOK: ok, StructMsg: msg,
		Props: r.Props, Pos: fmt.Sprintf("%s:%d", strings.TrimPrefix(r.File, e.repo+"/"), r.Line), Func: r.Pkg}
}

func ruleOpt(r *StructRule, key string) []string {
	for _, a := range r.Args {
		if strings.HasPrefix(a, key+"=") {
			return strings.Split(strings.TrimPrefix(a, key+"="), ",")
		}
	}
	return nil
}

func rulePos(r *StructRule) []string {
	var out []string
	for _, a := range r.Args {
		if !strings.Contains(a, "=") {
			out = append(out, a)
		}
	}
	return out
}

// isField: v is &x.f for struct named sname, field fname
func isFieldAddr(v ssa.Value, pkg, sname, fname string) bool {
	fa, ok := v.(*ssa.FieldAddr)
	if !ok {
		return false
	}
	st := fa.X.Type().Underlying().(*types.Pointer).Elem()
	n := namedOf(st)
	s, isS := isStruct(st)
	if n == nil || !isS || n.Obj().Pkg() == nil {
		return false
	}
	return n.Obj().Pkg().Path() == pkg && n.Obj().Name() == sname && s.Field(fa.Field).Name() == fname
}

func atomicCallKind(in ssa.Instruction) (kind string, cc *ssa.CallCommon) {
	c, ok := in.(ssa.CallInstruction)
	if !ok {
		return "", nil
	}
	f := c.Common().StaticCallee()
	if f == nil || f.Pkg == nil || f.Pkg.Pkg.Path() != "sync/atomic" {
		return "", nil
	}
	n := f.Name()
	switch {
	case strings.HasPrefix(n, "Load"):
		return "load", c.Common()
	case strings.HasPrefix(n, "Store"):
		return "store", c.Common()
	case strings.HasPrefix(n, "Add"):
		return "add", c.Common()
	case strings.HasPrefix(n, "Swap"):
		return "swap", c.Common()
	case strings.HasPrefix(n, "CompareAndSwap"):
		return "cas", c.Common()
	}
	return "", nil
}

func (e *Engine) evalRule(r *StructRule) []*Obligation {
	pos := rulePos(r)
	switch r.Kind {
	case "atomic_rmw", "atomic_only", "encapsulated":
		if len(pos) < 1 || !strings.Contains(pos[0], ".") {
			return []*Obligation{e.structObl(r, "malformed", false, "rule needs Struct.field")}
		}
		parts := strings.SplitN(pos[0], ".", 2)
		sname, fname := parts[0], parts[1]
		switch r.Kind {
		case "atomic_rmw":
			return e.ruleAtomicRMW(r, sname, fname)
		case "atomic_only":
			return e.ruleAtomicOnly(r, sname, fname)
		default:
			return e.ruleEncapsulated(r, sname, fname)
		}
	case "goroutine_roots":
		return e.ruleGoRoots(r)
	case "go_ctx":
		// go_ctx Func from=withcancel|param : every goroutine Func starts (and every task it builds with
		// a context argument) gets a context derived from the one Func itself cancels on exit
		// (from=withcancel: the result of its context.WithCancel/WithTimeout call, whose cancel it defers)
		// or from its own context parameter (from=param).
		var out []*Obligation
		from := "withcancel"
		if o := ruleOpt(r, "from"); len(o) > 0 {
			from = o[0]
		}
		for _, fnk := range pos {
			fn := e.funcs[r.Pkg+"::"+fnk]
			if fn == nil {
				out = append(out, e.structObl(r, fnk, false, "function not found"))
				continue
			}
			ok, msg := goCtxFlow(fn, from)
			out = append(out, e.structObl(r, fnk, ok, msg))
		}
		return out
	case "select_arms":
		// select_arms Func [done=1] [recv=var,...] : every blocking select (and every bare channel
		// send/receive) in Func can be woken: each select has a receive arm on a context's Done()
		// channel (done=1) and on each listed channel variable; no bare blocking channel operation.
		var out []*Obligation
		for _, fnk := range pos {
			fn := e.funcs[r.Pkg+"::"+fnk]
			if fn == nil {
				out = append(out, e.structObl(r, fnk, false, "function not found"))
				continue
			}
			ok, msg := selectArms(fn, len(ruleOpt(r, "done")) > 0, ruleOpt(r, "recv"))
			out = append(out, e.structObl(r, fnk, ok, msg))
		}
		return out
	case "closure_immutable":
		var out []*Obligation
		for _, fnk := range pos {
			fn := e.funcs[r.Pkg+"::"+fnk]
			if fn == nil {
				out = append(out, e.structObl(r, fnk, false, "function not found"))
				continue
			}
			ok, msg := closureImmutable(fn)
			out = append(out, e.structObl(r, fnk, ok, msg))
		}
		return out
	case "no_calls":
		// no_calls from=REGEXP to=F,G,.. : no function of the package whose key matches REGEXP calls
		// (directly, or through a function literal inside it) any of the listed functions.
		var out []*Obligation
		fromRe, err := regexp.Compile("^(" + strings.Join(ruleOpt(r, "from"), ",") + ")$")
		if err != nil {
			return []*Obligation{e.structObl(r, "from", false, err.Error())}
		}
		to := map[*ssa.Function]bool{}
		for _, t := range ruleOpt(r, "to") {
			if f := e.funcs[r.Pkg+"::"+t]; f != nil {
				to[f] = true
			} else {
				out = append(out, e.structObl(r, t, false, "function not found"))
			}
		}
		matched := 0
		for _, fn := range e.pkgFunctions(r.Pkg) {
			root := fn
			for root.Parent() != nil {
				root = root.Parent()
			}
			if !fromRe.MatchString(e.fnKey[root]) {
				continue
			}
			if fn == root {
				matched++
			}
			for _, b := range fn.Blocks {
				for _, in := range b.Instrs {
					if ci, ok := in.(ssa.CallInstruction); ok {
						if cal := ci.Common().StaticCallee(); cal != nil && to[cal] {
							out = append(out, e.structObl(r, e.fnKey[fn]+"->"+cal.Name(), false, "forbidden call"))
						}
					}
				}
			}
		}
		if matched == 0 {
			out = append(out, e.structObl(r, "from", false, "no function matches"))
		}
		if len(out) == 0 {
			out = append(out, e.structObl(r, "all", true, fmt.Sprintf("%d functions checked, none calls the %d listed functions", matched, len(to))))
		}
		return out
	case "digit_tables":
		// digit_tables : the constants digits, digit2 and digit3 of the package are the decimal
		// tables the contracts assume (checked by evaluating the constants)
		var out []*Obligation
		p := e.pkgs[r.Pkg]
		check := func(name string, width, count int) {
			obj := p.Types.Scope().Lookup(name)
			c, ok := obj.(*types.Const)
			if !ok {
				out = append(out, e.structObl(r, name, false, "constant not found"))
				return
			}
			v := constant.StringVal(c.Val())
			if len(v) != width*count {
				out = append(out, e.structObl(r, name, false, fmt.Sprintf("length %d, want %d", len(v), width*count)))
				return
			}
			for k := 0; k < count; k++ {
				want := fmt.Sprintf("%0*d", width, k)
				if v[k*width:(k+1)*width] != want {
					out = append(out, e.structObl(r, name, false, fmt.Sprintf("entry %d is %q, want %q", k, v[k*width:(k+1)*width], want)))
					return
				}
			}
			out = append(out, e.structObl(r, name, true, fmt.Sprintf("%d entries of %d digits, each the decimal representation of its index", count, width)))
		}
		check("digits", 1, 10)
		check("digit2", 2, 100)
		check("digit3", 3, 1000)
		return out
	case "decode_cells":
		return e.ruleDecodeCells(r)
	case "callers":
		// callers Func allowed=F,G,.. : in this package only the listed functions (and the closures
		// inside them) call Func directly.
		allowed := map[string]bool{}
		for _, a := range ruleOpt(r, "allowed") {
			allowed[a] = true
		}
		var out []*Obligation
		for _, target := range pos {
			tfn := e.funcs[r.Pkg+"::"+target]
			if tfn == nil {
				out = append(out, e.structObl(r, target, false, "function not found"))
				continue
			}
			var bad []string
			n := 0
			for _, fn := range e.pkgFunctions(r.Pkg) {
				root := fn
				for root.Parent() != nil {
					root = root.Parent()
				}
				for _, b := range fn.Blocks {
					for _, in := range b.Instrs {
						ci, ok := in.(ssa.CallInstruction)
						if !ok {
							continue
						}
						if cal := ci.Common().StaticCallee(); cal != nil && (cal == tfn || cal.Origin() == tfn) {
							n++
							if !allowed[e.fnKey[root]] && !allowed[e.fnKey[fn]] {
								bad = append(bad, e.fnKey[fn])
							}
						}
					}
				}
			}
			sort.Strings(bad)
			if len(bad) > 0 {
				out = append(out, e.structObl(r, target, false, "called outside the allowed functions: "+strings.Join(bad, ", ")))
			} else {
				out = append(out, e.structObl(r, target, true, fmt.Sprintf("%d call sites, all in the %d allowed functions", n, len(allowed))))
			}
		}
		return out
	case "recovers":
		var out []*Obligation
		for _, fnk := range pos {
			fn := e.funcs[r.Pkg+"::"+fnk]
			if fn == nil {
				out = append(out, e.structObl(r, fnk, false, "function not found"))
				continue
			}
			ok, msg := recoversFirst(fn)
			out = append(out, e.structObl(r, fnk, ok, msg))
		}
		return out
	}
	return []*Obligation{e.structObl(r, "unknown", false, "unknown rule kind "+r.Kind)}
}

// ---------------------------------------------------------------------
// data dependence inside a function family (function + its closures)

type depCtx struct {
	seen   map[ssa.Value]bool
	stores map[ssa.Value][]ssa.Value // cell root -> values stored
}

func cellRoot(v ssa.Value) ssa.Value {
	for {
		switch x := v.(type) {
		case *ssa.FreeVar:
			// find binding in the parent's MakeClosure
			fn := x.Parent()
			idx := -1
			for i, fv := range fn.FreeVars {
				if fv == x {
					idx = i
				}
			}
			par := fn.Parent()
			if par == nil || idx < 0 {
				return v
			}
			var bound ssa.Value
			for _, b := range par.Blocks {
				for _, in := range b.Instrs {
					if mc, ok := in.(*ssa.MakeClosure); ok && mc.Fn == fn && idx < len(mc.Bindings) {
						bound = mc.Bindings[idx]
					}
				}
			}
			if bound == nil {
				return v
			}
			v = bound
		default:
			return v
		}
	}
}

func family(fn *ssa.Function) []*ssa.Function {
	root := fn
	for root.Parent() != nil {
		root = root.Parent()
	}
	var out []*ssa.Function
	var walk func(f *ssa.Function)
	walk = func(f *ssa.Function) {
		out = append(out, f)
		for _, a := range f.AnonFuncs {
			walk(a)
		}
	}
	walk(root)
	return out
}

func newDepCtx(fn *ssa.Function) *depCtx {
	d := &depCtx{seen: map[ssa.Value]bool{}, stores: map[ssa.Value][]ssa.Value{}}
	for _, f := range family(fn) {
		for _, b := range f.Blocks {
			for _, in := range b.Instrs {
				if st, ok := in.(*ssa.Store); ok {
					r := cellRoot(st.Addr)
					d.stores[r] = append(d.stores[r], st.Val)
				}
			}
		}
	}
	return d
}

// reaches: does the value v depend on a value satisfying pred?
func (d *depCtx) reaches(v ssa.Value, pred func(ssa.Value) bool) bool {
	if v == nil || d.seen[v] {
		return false
	}
	d.seen[v] = true
	if pred(v) {
		return true
	}
	switch x := v.(type) {
	case *ssa.UnOp:
		if x.Op == token.MUL {
			// load: from a local cell -> everything stored there
			r := cellRoot(x.X)
			if _, isAlloc := r.(*ssa.Alloc); isAlloc {
				for _, sv := range d.stores[r] {
					if d.reaches(sv, pred) {
						return true
					}
				}
				return false
			}
			return d.reaches(x.X, pred)
		}
	case *ssa.Phi:
		for _, e := range x.Edges {
			if d.reaches(e, pred) {
				return true
			}
		}
		return false
	case *ssa.Const, *ssa.Global, *ssa.Function, *ssa.Parameter, *ssa.Builtin:
		return false
	case *ssa.FreeVar:
		r := cellRoot(x)
		if r != v {
			return d.reaches(r, pred)
		}
		return false
	case *ssa.Alloc:
		for _, sv := range d.stores[x] {
			if d.reaches(sv, pred) {
				return true
			}
		}
		return false
	}
	if in, ok := v.(ssa.Instruction); ok {
		for _, op := range in.Operands(nil) {
			if *op != nil && d.reaches(*op, pred) {
				return true
			}
		}
	}
	return false
}

func (e *Engine) ruleAtomicRMW(r *StructRule, sname, fname string) []*Obligation {
	var out []*Obligation
	n := 0
	for _, fn := range e.pkgFunctions(r.Pkg) {
		for _, b := range fn.Blocks {
			for _, in := range b.Instrs {
				kind, cc := atomicCallKind(in)
				if kind != "store" && kind != "swap" {
					continue
				}
				if !isFieldAddr(cc.Args[0], r.Pkg, sname, fname) {
					continue
				}
				n++
				d := newDepCtx(fn)
				readsSame := func(v ssa.Value) bool {
					if c, ok := v.(*ssa.Call); ok {
						k, c2 := atomicCallKind(c)
						if (k == "load" || k == "add" || k == "swap") && isFieldAddr(c2.Args[0], r.Pkg, sname, fname) {
							return true
						}
					}
					if u, ok := v.(*ssa.UnOp); ok && u.Op == token.MUL && isFieldAddr(u.X, r.Pkg, sname, fname) {
						return true
					}
					return false
				}
				bad := d.reaches(cc.Args[1], readsSame)
				p := e.fset.Position(in.Pos())
				name := fmt.Sprintf("%s.%s:%s:store#%d", sname, fname, e.fnKey[fn], countIn(out, e.fnKey[fn])+1)
				msg := fmt.Sprintf("%s:%d: value stored to %s.%s", strings.TrimPrefix(p.Filename, e.repo+"/"), p.Line, sname, fname)
				if bad {
					msg += " is computed from an earlier read of the same field: concurrent callers can lose updates (use CompareAndSwap or Add)"
				} else {
					msg += " does not depend on an earlier read of the field"
				}
				out = append(out, e.structObl(r, name, !bad, msg))
			}
		}
	}
	out = append(out, e.structObl(r, sname+"."+fname+":sites", true, fmt.Sprintf("%d atomic store sites examined", n)))
	return out
}

func countIn(obls []*Obligation, key string) int {
	c := 0
	for _, o := range obls {
		if strings.Contains(o.Name, ":"+key+":") {
			c++
		}
	}
	return c
}

func (e *Engine) ruleAtomicOnly(r *StructRule, sname, fname string) []*Obligation {
	except := map[string]bool{}
	for _, x := range ruleOpt(r, "except") {
		except[x] = true
	}
	var bad []string
	n := 0
	for _, fn := range e.pkgFunctions(r.Pkg) {
		if except[e.fnKey[fn]] {
			continue
		}
		for _, b := range fn.Blocks {
			for _, in := range b.Instrs {
				fa, ok := in.(*ssa.FieldAddr)
				if !ok || !isFieldAddr(fa, r.Pkg, sname, fname) {
					continue
				}
				n++
				for _, ref := range *fa.Referrers() {
					if _, isDbg := ref.(*ssa.DebugRef); isDbg {
						continue
					}
					if k, _ := atomicCallKind(ref); k != "" {
						continue
					}
					p := e.fset.Position(ref.Pos())
					bad = append(bad, fmt.Sprintf("%s (%s:%d)", e.fnKey[fn], strings.TrimPrefix(p.Filename, e.repo+"/"), p.Line))
				}
			}
		}
	}
	msg := fmt.Sprintf("%d address computations of %s.%s, all used only by sync/atomic", n, sname, fname)
	if len(bad) > 0 {
		msg = "non-atomic access to " + sname + "." + fname + " in " + strings.Join(bad, ", ")
	}
	return []*Obligation{e.structObl(r, sname+"."+fname, len(bad) == 0, msg)}
}

func (e *Engine) ruleEncapsulated(r *StructRule, sname, fname string) []*Obligation {
	allowed := map[string]bool{}
	for _, x := range ruleOpt(r, "funcs") {
		allowed[x] = true
	}
	var bad []string
	n := 0
	// the field may be touched from any package of the module if exported; scan all module functions
	for k, fn := range e.funcs {
		_ = k
		for _, b := range fn.Blocks {
			for _, in := range b.Instrs {
				touch := false
				switch x := in.(type) {
				case *ssa.FieldAddr:
					touch = isFieldAddr(x, r.Pkg, sname, fname)
				case *ssa.Field:
					n0 := namedOf(x.X.Type())
					if s, ok := isStruct(x.X.Type()); ok && n0 != nil && n0.Obj().Pkg() != nil {
						touch = n0.Obj().Pkg().Path() == r.Pkg && n0.Obj().Name() == sname && s.Field(x.Field).Name() == fname
					}
				}
				if !touch {
					continue
				}
				n++
				root := fn
				for root.Parent() != nil {
					root = root.Parent()
				}
				if fn.Pkg.Pkg.Path() == r.Pkg && (allowed[e.fnKey[fn]] || allowed[e.fnKey[root]]) {
					continue
				}
				p := e.fset.Position(in.Pos())
				bad = append(bad, fmt.Sprintf("%s.%s (%s:%d)", shortPkg(fn.Pkg.Pkg.Path()), e.fnKey[fn], strings.TrimPrefix(p.Filename, e.repo+"/"), p.Line))
			}
		}
	}
	sort.Strings(bad)
	msg := fmt.Sprintf("%d accesses of %s.%s, all inside %s", n, sname, fname, strings.Join(ruleOpt(r, "funcs"), ","))
	if len(bad) > 0 {
		msg = "access to " + sname + "." + fname + " outside the functions under contract: " + strings.Join(bad, ", ")
	}
	return []*Obligation{e.structObl(r, sname+"."+fname, len(bad) == 0, msg)}
}

// ---------------------------------------------------------------------
// recover frames

// callsRecoverDirectly: fn's own body contains a call to the builtin recover()
func callsRecoverDirectly(fn *ssa.Function) bool {
	for _, b := range fn.Blocks {
		for _, in := range b.Instrs {
			if c, ok := in.(*ssa.Call); ok {
				if bi, ok := c.Call.Value.(*ssa.Builtin); ok && bi.Name() == "recover" {
					return true
				}
			}
		}
	}
	return false
}

// recoversFirst: the entry block of fn registers, before any call that could panic, a deferred
// function that itself calls recover().
func recoversFirst(fn *ssa.Function) (bool, string) {
	if len(fn.Blocks) == 0 {
		return false, "no body"
	}
	for _, in := range fn.Blocks[0].Instrs {
		switch x := in.(type) {
		case *ssa.Defer:
			var callee *ssa.Function
			if mc, ok := x.Call.Value.(*ssa.MakeClosure); ok {
				callee = mc.Fn.(*ssa.Function)
			} else if f := x.Call.StaticCallee(); f != nil {
				callee = f
			}
			if callee != nil && callsRecoverDirectly(callee) {
				return true, "defers " + callee.Name() + ", which calls recover() itself, before anything that can panic"
			}
			if callee != nil {
				// a deferred function that calls a helper which calls recover(): ineffective by Go's rules
				continue
			}
		case *ssa.Call:
			if _, ok := x.Call.Value.(*ssa.Builtin); ok {
				continue
			}
			return false, "calls " + x.Call.Value.Name() + " before an effective recover frame is in place"
		case *ssa.Go, *ssa.Panic, *ssa.Send, *ssa.Select, *ssa.TypeAssert, *ssa.MapUpdate:
			if ta, ok := in.(*ssa.TypeAssert); ok && ta.CommaOk {
				continue
			}
			return false, fmt.Sprintf("%T before an effective recover frame is in place", in)
		}
	}
	return false, "no deferred function that calls recover() directly in the entry block"
}

func (e *Engine) ruleGoRoots(r *StructRule) []*Obligation {
	assume := map[string]bool{}
	for _, x := range ruleOpt(r, "assume") {
		assume[x] = true
	}
	var out []*Obligation
	for _, fn := range e.pkgFunctions(r.Pkg) {
		k := 0
		for _, b := range fn.Blocks {
			for _, in := range b.Instrs {
				g, ok := in.(*ssa.Go)
				if !ok {
					continue
				}
				k++
				var callee *ssa.Function
				if mc, ok := g.Call.Value.(*ssa.MakeClosure); ok {
					callee = mc.Fn.(*ssa.Function)
				} else if f := g.Call.StaticCallee(); f != nil {
					callee = f
				}
				name := fmt.Sprintf("%s:go#%d", e.fnKey[fn], k)
				p := e.fset.Position(g.Pos())
				where := fmt.Sprintf("%s:%d", strings.TrimPrefix(p.Filename, e.repo+"/"), p.Line)
				if callee == nil {
					out = append(out, e.structObl(r, name, false, where+": goroutine started from a function value: cannot establish a recover frame"))
					continue
				}
				ck := e.fnKey[callee]
				if callee.Pkg != nil {
					if c, ok := e.cs.Funcs[callee.Pkg.Pkg.Path()+"::"+ck]; ok && c.Kind == "func" && c.Flags["nopanic"] != "" {
						out = append(out, e.structObl(r, name+":"+ck, true, where+": "+ck+" has a verified nopanic contract"))
						continue
					}
				}
				if assume[ck] {
					out = append(out, e.structObl(r, name+":"+ck, true, where+": "+ck+" assumed not to panic (listed assumption)"))
					continue
				}
				ok2, msg := recoversFirst(callee)
				out = append(out, e.structObl(r, name+":"+ck, ok2, where+": "+ck+": "+msg))
			}
		}
	}
	return out
}

// closureImmutable: the function literal never assigns to a variable it captures, and the
// variables it captures by reference are not assigned in the enclosing function after the
// closure has been made.
func closureImmutable(fn *ssa.Function) (bool, string) {
	for _, b := range fn.Blocks {
		for _, in := range b.Instrs {
			if st, ok := in.(*ssa.Store); ok {
				if _, isFV := cellRoot(st.Addr).(*ssa.FreeVar); isFV {
					return false, "stores to captured variable " + st.Addr.Name()
				}
				if fv, isFV := st.Addr.(*ssa.FreeVar); isFV {
					return false, "stores to captured variable " + fv.Name()
				}
			}
		}
	}
	par := fn.Parent()
	if par != nil {
		// the cells bound to the literal, and where it is made
		bound := map[ssa.Value]bool{}
		var makes []*ssa.MakeClosure
		for _, b := range par.Blocks {
			for _, in := range b.Instrs {
				if mc, ok := in.(*ssa.MakeClosure); ok && mc.Fn == fn {
					makes = append(makes, mc)
					for _, bv := range mc.Bindings {
						bound[bv] = true
					}
				}
			}
		}
		// blocks reachable from a block that makes the closure
		after := map[*ssa.BasicBlock]bool{}
		var walk func(b *ssa.BasicBlock)
		walk = func(b *ssa.BasicBlock) {
			for _, s := range b.Succs {
				if !after[s] {
					after[s] = true
					walk(s)
				}
			}
		}
		for _, mc := range makes {
			walk(mc.Block())
		}
		for _, b := range par.Blocks {
			seenMake := after[b]
			for _, in := range b.Instrs {
				if mc, ok := in.(*ssa.MakeClosure); ok && mc.Fn == fn {
					seenMake = true
					continue
				}
				if st, ok := in.(*ssa.Store); ok && seenMake && bound[st.Addr] {
					return false, "the enclosing function assigns a captured variable after making the closure"
				}
			}
		}
		// sibling literals that capture the same cell and assign it
		for _, sib := range par.AnonFuncs {
			if sib == fn {
				continue
			}
			for _, b := range par.Blocks {
				for _, in := range b.Instrs {
					mc, ok := in.(*ssa.MakeClosure)
					if !ok || mc.Fn != sib {
						continue
					}
					for i, bv := range mc.Bindings {
						if bound[bv] && i < len(sib.FreeVars) && !freeVarReadOnly(sib.FreeVars[i], map[ssa.Value]bool{}) {
							return false, "another function literal assigns a captured variable"
						}
					}
				}
			}
		}
	}
	return true, fmt.Sprintf("%d captured variables, none assigned by the literal or after it is made", len(fn.FreeVars))
}

func isContextType(t types.Type) bool {
	n := namedOf(t)
	return n != nil && n.Obj().Pkg() != nil && n.Obj().Pkg().Path() == "context" && n.Obj().Name() == "Context"
}

// ctxOrigin classifies where a context value comes from: "withcancel" (result of context.WithCancel /
// WithTimeout / WithDeadline called in this function), "param" (a parameter), "" (something else).
func ctxOrigin(v ssa.Value, seen map[ssa.Value]bool) map[string]bool {
	out := map[string]bool{}
	if seen[v] {
		return out
	}
	seen[v] = true
	switch x := v.(type) {
	case *ssa.Parameter:
		out["param"] = true
	case *ssa.Extract:
		if c, ok := x.Tuple.(*ssa.Call); ok {
			if f := c.Call.StaticCallee(); f != nil && f.Pkg != nil && f.Pkg.Pkg.Path() == "context" &&
				(f.Name() == "WithCancel" || f.Name() == "WithTimeout" || f.Name() == "WithDeadline") {
				out["withcancel"] = true
				return out
			}
		}
		out["other"] = true
	case *ssa.Call:
		// wrappers that keep cancellation: core.WithContext(ctx, ..), context.WithValue(ctx, ..)
		if f := x.Call.StaticCallee(); f != nil && (f.Name() == "WithContext" || f.Name() == "WithValue") && len(x.Call.Args) > 0 {
			for k := range ctxOrigin(x.Call.Args[0], seen) {
				out[k] = true
			}
			return out
		}
		out["other"] = true
	case *ssa.Phi:
		for _, e := range x.Edges {
			for k := range ctxOrigin(e, seen) {
				out[k] = true
			}
		}
	case *ssa.UnOp:
		if x.Op == token.MUL {
			// load from a local cell: look at what is stored there
			if a, ok := x.X.(*ssa.Alloc); ok {
				for _, r := range *a.Referrers() {
					if st, ok := r.(*ssa.Store); ok && st.Addr == a {
						for k := range ctxOrigin(st.Val, seen) {
							out[k] = true
						}
					}
				}
				return out
			}
		}
		out["other"] = true
	case *ssa.MakeInterface, *ssa.ChangeInterface:
		ops := x.(ssa.Instruction).Operands(nil)
		for k := range ctxOrigin(*ops[0], seen) {
			out[k] = true
		}
	default:
		out["other"] = true
	}
	return out
}

func goCtxFlow(fn *ssa.Function, from string) (bool, string) {
	n := 0
	check := func(args []ssa.Value, what string) (bool, string) {
		for _, a := range args {
			if !isContextType(a.Type()) {
				continue
			}
			n++
			or := ctxOrigin(a, map[ssa.Value]bool{})
			for k := range or {
				bad := false
				switch from {
				case "withcancel":
					// a parameter's context that was re-derived is fine only if every path goes through WithCancel
					bad = k != "withcancel"
				case "param":
					bad = k != "param" && k != "withcancel"
				}
				if bad {
					return false, what + " is given a context that is not derived from the one this function controls (origin: " + k + ")"
				}
			}
		}
		return true, ""
	}
	for _, b := range fn.Blocks {
		for _, in := range b.Instrs {
			switch x := in.(type) {
			case *ssa.Go:
				if ok, msg := check(x.Call.Args, "the goroutine started at "+x.Call.Value.Name()); !ok {
					return false, msg
				}
			case *ssa.Call:
				// tasks built for a worker pool: functions of this package named task
				if f := x.Call.StaticCallee(); f != nil && f.Pkg == fn.Pkg && f.Name() == "task" {
					if ok, msg := check(x.Call.Args, "the worker-pool task"); !ok {
						return false, msg
					}
				}
			}
		}
	}
	if from == "withcancel" {
		// the cancel function must be called by a deferred function
		found := false
		for _, b := range fn.Blocks {
			for _, in := range b.Instrs {
				if d, ok := in.(*ssa.Defer); ok {
					var callee *ssa.Function
					if mc, ok := d.Call.Value.(*ssa.MakeClosure); ok {
						callee = mc.Fn.(*ssa.Function)
					}
					if callee != nil {
						for _, b2 := range callee.Blocks {
							for _, in2 := range b2.Instrs {
								if c, ok := in2.(*ssa.Call); ok {
									if n2 := namedOf(c.Call.Value.Type()); n2 != nil && n2.Obj().Name() == "CancelFunc" {
										found = true
									}
									if ld, ok := c.Call.Value.(*ssa.UnOp); ok {
										if n2 := namedOf(ld.Type()); n2 != nil && n2.Obj().Name() == "CancelFunc" {
											found = true
										}
									}
								}
							}
						}
					} else if n2 := namedOf(d.Call.Value.Type()); n2 != nil && n2.Obj().Name() == "CancelFunc" {
						found = true
					}
				}
			}
		}
		if !found {
			return false, "no deferred call of the cancel function"
		}
	}
	return true, fmt.Sprintf("%d context arguments of started goroutines/tasks, all derived from the context this function controls", n)
}

func isDoneChan(v ssa.Value) bool {
	c, ok := v.(*ssa.Call)
	if !ok {
		return false
	}
	if c.Call.IsInvoke() && c.Call.Method.Name() == "Done" && isContextType(c.Call.Value.Type()) {
		return true
	}
	return false
}

func valueVarName(fn *ssa.Function, v ssa.Value) string {
	for _, b := range fn.Blocks {
		for _, in := range b.Instrs {
			if d, ok := in.(*ssa.DebugRef); ok && d.X == v {
				if id, ok := d.Expr.(*ast.Ident); ok {
					return id.Name
				}
			}
		}
	}
	return ""
}

func selectArms(fn *ssa.Function, needDone bool, recv []string) (bool, string) {
	n := 0
	for _, b := range fn.Blocks {
		for _, in := range b.Instrs {
			switch x := in.(type) {
			case *ssa.Select:
				if !x.Blocking {
					continue
				}
				n++
				p := fn.Prog.Fset.Position(x.Pos())
				haveDone := false
				have := map[string]bool{}
				for _, st := range x.States {
					if st.Dir == types.RecvOnly {
						if isDoneChan(st.Chan) {
							haveDone = true
						}
						if nm := valueVarName(fn, st.Chan); nm != "" {
							have[nm] = true
						}
					}
				}
				if needDone && !haveDone {
					return false, fmt.Sprintf("line %d: a blocking select without a <-ctx.Done() arm", p.Line)
				}
				for _, rv := range recv {
					if !have[rv] {
						return false, fmt.Sprintf("line %d: a blocking select without a receive arm on %s: the waiter is not woken when that channel is served", p.Line, rv)
					}
				}
			case *ssa.Send:
				p := fn.Prog.Fset.Position(x.Pos())
				return false, fmt.Sprintf("line %d: bare (unselectable) channel send", p.Line)
			case *ssa.UnOp:
				if x.Op == token.ARROW {
					p := fn.Prog.Fset.Position(x.Pos())
					return false, fmt.Sprintf("line %d: bare (unselectable) channel receive", p.Line)
				}
			}
		}
	}
	return true, fmt.Sprintf("%d blocking selects, each with the required wake-up arms; no bare channel operation", n)
}


// decode_cells: the scalar decode handlers are a table of cells, one per (kind, pointer-or-not):
//   - the handler named <kind>[Ptr]Decode makes exactly one decode call, to
//     (*Decoder).decode<Kind>[Ptr], and hands it p converted to *T (resp. **T) for that kind's T;
//   - decodeHandlers[k] is <k>Decode and decodePtrHandlers[k] is <k>PtrDecode for every scalar kind k.
// A cell that calls its neighbour, or casts to the wrong pointer type, decodes into memory of the
// wrong shape (C06, C01).
func (e *Engine) ruleDecodeCells(r *StructRule) []*Obligation {
	var out []*Obligation
	re := regexp.MustCompile(`^([a-z0-9]+?)(Ptr)?Decode$`)
	cap1 := func(s string) string { return strings.ToUpper(s[:1]) + s[1:] }
	ncells := 0
	for _, fn := range e.pkgFunctions(r.Pkg) {
		if fn.Parent() != nil || fn.Signature.Recv() != nil {
			continue
		}
		m := re.FindStringSubmatch(fn.Name())
		if m == nil || m[1] == "invalid" || fn.Signature.Params().Len() != 3 {
			continue
		}
		want := "decode" + cap1(m[1]) + m[2]
		var calls []*ssa.Function
		var castOK = true
		var castMsg string
		for _, b := range fn.Blocks {
			for _, in := range b.Instrs {
				if ci, ok := in.(*ssa.Call); ok {
					if cal := ci.Call.StaticCallee(); cal != nil && strings.HasPrefix(cal.Name(), "decode") {
						calls = append(calls, cal)
						// the last argument is p converted: check the target type
						args := ci.Call.Args
						last := args[len(args)-1]
						pt, ok := last.Type().Underlying().(*types.Pointer)
						depth := 0
						var base types.Type
						for ok {
							depth++
							base = pt.Elem()
							pt, ok = base.Underlying().(*types.Pointer)
						}
						wantDepth := 1
						if m[2] == "Ptr" {
							wantDepth = 2
						}
						bn := types.TypeString(base, nil)
						if bn == "interface{}" {
							bn = "interface"
						}
						if depth != wantDepth || bn != m[1] {
							castOK = false
							castMsg = fmt.Sprintf("hands %s to the decoder, want %s%s", last.Type(), strings.Repeat("*", wantDepth), m[1])
						}
					}
				}
			}
		}
		ncells++
		switch {
		case len(calls) != 1:
			out = append(out, e.structObl(r, fn.Name(), false, fmt.Sprintf("%d decode calls, want exactly one", len(calls))))
		case calls[0].Name() != want:
			out = append(out, e.structObl(r, fn.Name(), false, "calls "+calls[0].Name()+", want "+want))
		case !castOK:
			out = append(out, e.structObl(r, fn.Name(), false, castMsg))
		default:
			out = append(out, e.structObl(r, fn.Name(), true, "calls "+want+" with the matching pointer type"))
		}
	}
	// the two tables
	for _, fn := range e.pkgFunctions(r.Pkg) {
		if !strings.HasPrefix(fn.Name(), "init") {
			continue
		}
		// stores of function values into elements of an array that ends up in decodeHandlers / decodePtrHandlers
		for _, b := range fn.Blocks {
			for _, in := range b.Instrs {
				st, ok := in.(*ssa.Store)
				if !ok {
					continue
				}
				ia, ok := st.Addr.(*ssa.IndexAddr)
				if !ok {
					continue
				}
				k, ok := ia.Index.(*ssa.Const)
				if !ok {
					continue
				}
				var f *ssa.Function
				switch v := st.Val.(type) {
				case *ssa.Function:
					f = v
				case *ssa.ChangeType:
					f, _ = v.X.(*ssa.Function)
				case *ssa.MakeClosure:
					f, _ = v.Fn.(*ssa.Function)
				}
				if f == nil {
					continue
				}
				m := re.FindStringSubmatch(f.Name())
				if m == nil || m[1] == "invalid" {
					continue
				}
				if n := namedOf(ia.X.Type().Underlying().(*types.Pointer).Elem().(*types.Array).Elem()); n == nil || n.Obj().Name() != "DecodeHandler" {
					continue
				}
				kind := strings.ToLower(reflect.Kind(k.Int64()).String())
				name := "table[" + kind + "]=" + f.Name()
				if kind != m[1] {
					out = append(out, e.structObl(r, name, false, "handler of another kind registered for "+kind))
				} else {
					out = append(out, e.structObl(r, name, true, "handler registered under its own kind"))
				}
			}
		}
	}
	if ncells == 0 {
		out = append(out, e.structObl(r, "none", false, "no decode handler cells found"))
	}
	return out
}
