package main

// Structural obligations: facts about the SSA of the current tree that are
// decided by analysis of the code rather than by an SMT query (goroutine
// roots and recover frames, lock discipline, encapsulation, publication).

func (e *Engine) structuralObligations(prop string) []*Obligation {
	var out []*Obligation
	for _, r := range e.cs.Rules {
		ok := false
		for _, p := range r.Props {
			if p == prop {
				ok = true
			}
		}
		if !ok {
			continue
		}
		out = append(out, e.evalRule(r)...)
	}
	return out
}

func (e *Engine) evalRule(r *StructRule) []*Obligation {
	return nil
}
