package main

// Replay of solver models against the real code.
//
// When an obligation of a function with "simple" inputs fails with a model, the engine asks the
// solver for the values of the function's inputs in that model (parameters, and the fields and
// byte contents reachable from them), writes an in-package Go test that builds those inputs,
// calls the REAL function and observes the outcome, and runs it with `go test -overlay` (nothing
// is written into the repository). The violation is confirmed when
//   - the obligation is a safety one (index, slice, make, div, nilmap, typeassert, nopanic) and
//     the call panics, or
//   - the obligation is a postcondition whose clause can be translated to Go and evaluates to
//     false on the state after the call.
// Anything else (ghost state in the clause, interface- or function-valued inputs that the model
// needs non-nil, closures, loop invariants and call-site obligations, which speak about states
// inside the function) is not replayable: the violation is then reported with the solver's
// output and the words no-failing-input-found.

import (
	"bytes"
	"encoding/json"
	"fmt"
	"go/ast"
	"go/printer"
	"go/token"
	"go/types"
	"os"
	"os/exec"
	"path/filepath"
	"strconv"
	"strings"

	"golang.org/x/tools/go/ssa"
)

const replayMaxElems = 48

// replayInput: one assignable input location of the function under verification.
type replayInput struct {
	Path  string     // Go expression: "n", "dec.head", "dec.buf"
	Typ   types.Type // its Go type
	Kind  string     // scalar | bool | bytes | string | array | ptr | iface
	Terms []Term     // scalar: value; bool: value; bytes: arr off len cap; string: arr off len; ptr: ref; iface: typ
	Elems []Term     // bytes/string/array: first replayMaxElems element terms
	N     int        // array length
}

// collectReplayInputs walks the parameters of fn (entry state st) and records what a test must
// set up. ok=false when the function cannot be replayed at all (closure).
func (vc *VC) collectReplayInputs(fr *Frame, st *State) {
	fn := fr.fn
	if fn.Parent() != nil || len(fn.FreeVars) > 0 {
		return
	}
	vc.replayOK = true
	// naming the input locations must not add a single assumption to the VC: collect in the
	// "inside a quantifier" mode (no facts, no definitions) and roll back whatever was emitted
	snap := vc.snapshot()
	vc.inQuant++
	defer func() {
		vc.inQuant--
		vc.restore(snap)
	}()
	for _, p := range fn.Params {
		vc.replayWalk(st, p.Name(), p.Type(), fr.vals[p], 0)
	}
}

func (vc *VC) replayWalk(st *State, path string, t types.Type, v Value, depth int) {
	switch u := t.Underlying().(type) {
	case *types.Basic:
		switch {
		case u.Info()&types.IsInteger != 0:
			vc.replayIn = append(vc.replayIn, replayInput{Path: path, Typ: t, Kind: "scalar", Terms: []Term{v.C[0]}})
		case u.Info()&types.IsBoolean != 0:
			vc.replayIn = append(vc.replayIn, replayInput{Path: path, Typ: t, Kind: "bool", Terms: []Term{v.C[0]}})
		case u.Info()&types.IsString != 0:
			in := replayInput{Path: path, Typ: t, Kind: "string", Terms: []Term{v.C[0], v.C[1], v.C[2]}}
			m := vc.get(st, "S.byte", "(Array Int (Array Int Int))")
			for k := 0; k < replayMaxElems; k++ {
				in.Elems = append(in.Elems, sSel(sSel(m, v.C[0]), iAdd(v.C[1], sInt(int64(k)))))
			}
			vc.replayIn = append(vc.replayIn, in)
		default:
			vc.replayIn = append(vc.replayIn, replayInput{Path: path, Typ: t, Kind: "unsupported"})
		}
	case *types.Slice:
		eb, ok := u.Elem().Underlying().(*types.Basic)
		if !ok || eb.Info()&types.IsInteger == 0 {
			// other element types: only nil/empty can be built
			vc.replayIn = append(vc.replayIn, replayInput{Path: path, Typ: t, Kind: "slice-other", Terms: []Term{v.C[0], v.C[1], v.C[2], v.C[3]}})
			return
		}
		in := replayInput{Path: path, Typ: t, Kind: "bytes", Terms: []Term{v.C[0], v.C[1], v.C[2], v.C[3]}}
		for k := 0; k < replayMaxElems; k++ {
			p := vc.elemPtr(v.C[0], iAdd(v.C[1], sInt(int64(k))), u.Elem())
			in.Elems = append(in.Elems, vc.load(st, p, u.Elem()).C[0])
		}
		vc.replayIn = append(vc.replayIn, in)
	case *types.Array:
		eb, ok := u.Elem().Underlying().(*types.Basic)
		if !ok || eb.Info()&types.IsInteger == 0 || u.Len() > replayMaxElems {
			vc.replayIn = append(vc.replayIn, replayInput{Path: path, Typ: t, Kind: "unsupported"})
			return
		}
		in := replayInput{Path: path, Typ: t, Kind: "array", N: int(u.Len())}
		for k := 0; k < int(u.Len()); k++ {
			in.Elems = append(in.Elems, sSel(v.C[0], sInt(int64(k))))
		}
		vc.replayIn = append(vc.replayIn, in)
	case *types.Pointer:
		s, isS := isStruct(u.Elem())
		if !isS || depth >= 2 {
			vc.replayIn = append(vc.replayIn, replayInput{Path: path, Typ: t, Kind: "ptr-other", Terms: []Term{v.C[0]}})
			return
		}
		vc.replayIn = append(vc.replayIn, replayInput{Path: path, Typ: t, Kind: "ptr", Terms: []Term{v.C[0]}})
		for i := 0; i < s.NumFields(); i++ {
			f := s.Field(i)
			if f.Name() == "_" {
				continue
			}
			fp := vc.fieldPtr(v, u.Elem(), i)
			if _, emb := isStruct(f.Type()); emb {
				// embedded/nested struct value: walk its scalar fields one level
				vc.replayStructFields(st, path+"."+f.Name(), f.Type(), fp, depth+1)
				continue
			}
			fv := vc.load(st, fp, f.Type())
			vc.replayWalk(st, path+"."+f.Name(), f.Type(), fv, depth+1)
		}
	case *types.Struct:
		vc.replayIn = append(vc.replayIn, replayInput{Path: path, Typ: t, Kind: "unsupported"})
	case *types.Interface, *types.Signature, *types.Map, *types.Chan:
		vc.replayIn = append(vc.replayIn, replayInput{Path: path, Typ: t, Kind: "iface", Terms: []Term{v.C[0]}})
	default:
		vc.replayIn = append(vc.replayIn, replayInput{Path: path, Typ: t, Kind: "unsupported"})
	}
}

func (vc *VC) replayStructFields(st *State, path string, t types.Type, p Value, depth int) {
	s, _ := isStruct(t)
	if depth > 2 {
		return
	}
	for i := 0; i < s.NumFields(); i++ {
		f := s.Field(i)
		if f.Name() == "_" {
			continue
		}
		fp := vc.fieldPtr(p, t, i)
		if _, emb := isStruct(f.Type()); emb {
			// e.g. sync.Mutex inside: leave zero
			continue
		}
		if !f.Exported() {
			// an unexported field of a struct of another package (sync.Mutex.state) cannot be set
			// from the replay test, which lives in the package of the function under replay
			if n := namedOf(t); n != nil && n.Obj().Pkg() != nil && vc.contract != nil && n.Obj().Pkg().Path() != vc.contract.Pkg {
				continue
			}
		}
		fv := vc.load(st, fp, f.Type())
		vc.replayWalk(st, path+"."+f.Name(), f.Type(), fv, depth+1)
	}
}

// ---------------------------------------------------------------------

func panicKind(k string) bool {
	switch k {
	case "index", "slice", "make", "div", "nilmap", "typeassert", "nopanic":
		return true
	}
	return false
}

func tryReplay(e *Engine, verif string, o *Obligation, rf *ReplayFile) *ReplayOutcome {
	vc := o.vc
	if vc == nil || !vc.replayOK || len(vc.replayIn) == 0 {
		return nil
	}
	if !panicKind(o.Kind) && o.Kind != "post" {
		return nil
	}
	fn := vc.root
	out := &ReplayOutcome{Template: "call the real function on the model's inputs"}
	// 1. a model in which every input is buildable: interfaces/functions/maps nil, other pointers nil,
	//    slices short
	var pref []string
	for _, in := range vc.replayIn {
		switch in.Kind {
		case "unsupported":
			out.Output = "input " + in.Path + " has a type the replay cannot build"
			return out
		case "iface", "ptr-other":
			pref = append(pref, sEq(in.Terms[0], "0"))
		case "slice-other":
			// elements cannot be chosen, but a slice of that many zero elements can be built
			pref = append(pref, "(<= "+in.Terms[2]+" "+strconv.Itoa(replayMaxElems)+")")
		case "bytes":
			pref = append(pref, "(<= "+in.Terms[2]+" "+strconv.Itoa(replayMaxElems)+")", "(<= "+in.Terms[3]+" 4096)")
		case "string":
			pref = append(pref, "(<= "+in.Terms[2]+" "+strconv.Itoa(replayMaxElems)+")")
		}
	}
	var want []Term
	var wantSort []string
	add := func(t Term, sort string) int {
		want = append(want, t)
		wantSort = append(wantSort, sort)
		return len(want) - 1
	}
	type slot struct{ terms, elems []int }
	slots := make([]slot, len(vc.replayIn))
	for i, in := range vc.replayIn {
		for _, t := range in.Terms {
			s := "Int"
			if in.Kind == "bool" {
				s = "Bool"
			}
			slots[i].terms = append(slots[i].terms, add(t, s))
		}
		for _, t := range in.Elems {
			slots[i].elems = append(slots[i].elems, add(t, "Int"))
		}
	}
	base := vc.script(o, true)
	cut := strings.LastIndex(base, "(check-sat)")
	if cut < 0 {
		return nil
	}
	var sb strings.Builder
	sb.WriteString(base[:cut])
	for _, p := range pref {
		sb.WriteString("(assert " + p + ")\n")
	}
	sb.WriteString("(check-sat)\n(get-value (")
	for _, t := range want {
		sb.WriteString(t + " ")
	}
	sb.WriteString("))\n")
	full := sb.String()
	r := SolverResult{Status: "unknown"}
	if lite, ok := stripQuantified(full); ok {
		// candidate inputs from the query without its quantified assumptions; the generated test
		// re-checks the function's preconditions on the concrete input, so a candidate that breaks
		// one of the dropped assumptions is discarded there, not reported
		r = solve(lite, 10, false)
	}
	if r.Status != "sat" {
		r = solve(full, 20, false)
	}
	if r.Status != "sat" {
		out.Output = "no model with buildable inputs (interfaces nil, short slices): solver says " + r.Status
		return out
	}
	vals := parseGetValue(r.Output, len(want))
	if vals == nil {
		out.Output = "could not read the model values"
		return out
	}
	// 2. the test
	src, why := genReplayTest(e, vc, fn, o, vals, func(i int) ([]string, []string) {
		var a, b []string
		for _, k := range slots[i].terms {
			a = append(a, vals[k])
		}
		for _, k := range slots[i].elems {
			b = append(b, vals[k])
		}
		return a, b
	})
	if src == "" {
		out.Output = why
		return out
	}
	dir := filepath.Join(verif, "replays", rf.Property)
	os.MkdirAll(dir, 0o755)
	tf := filepath.Join(dir, sanitize(o.Name)+"-"+scriptHash(o.Name)[:8]+"_test.go.txt")
	os.WriteFile(tf, []byte(src), 0o644)
	out.TestFile = tf
	pkgDir := strings.TrimPrefix(fn.Pkg.Pkg.Path(), modPath)
	pkgDir = strings.TrimPrefix(pkgDir, "/")
	out.Package = pkgDir
	out.Kind = o.Kind
	ran, confirmed, text := runReplayTest(e.repo, pkgDir, tf, o.Kind)
	out.Ran, out.Confirmed, out.Output = ran, confirmed, truncate(text, 3000)
	return out
}

func parseGetValue(out string, n int) []string {
	i := strings.Index(out, "((")
	if i < 0 {
		return nil
	}
	toks := tokenize(out[i:])
	// one s-expression starting at p: returns the index after it
	skip := func(p int) int {
		if p >= len(toks) {
			return p
		}
		if toks[p] != "(" {
			return p + 1
		}
		d := 0
		for q := p; q < len(toks); q++ {
			if toks[q] == "(" {
				d++
			} else if toks[q] == ")" {
				d--
				if d == 0 {
					return q + 1
				}
			}
		}
		return len(toks)
	}
	vals := make([]string, 0, n)
	p := 1 // after the outer "("
	for p < len(toks) && len(vals) < n && toks[p] == "(" {
		t0 := p + 1
		t1 := skip(t0) // term
		v1 := skip(t1) // value
		vals = append(vals, strings.Join(toks[t1:v1], " "))
		p = v1 + 1 // ")"
	}
	if len(vals) != n {
		return nil
	}
	for k, v := range vals {
		vals[k] = smtIntToGo(v)
	}
	return vals
}

func smtIntToGo(v string) string {
	v = strings.TrimSpace(v)
	if strings.HasPrefix(v, "(") {
		t := strings.Fields(strings.Trim(v, "() "))
		if len(t) == 2 && t[0] == "-" {
			return "-" + t[1]
		}
		return "?"
	}
	return v
}

func genReplayTest(e *Engine, vc *VC, fn *ssa.Function, o *Obligation, vals []string, get func(i int) ([]string, []string)) (string, string) {
	qual := func(p *types.Package) string {
		if p == fn.Pkg.Pkg {
			return ""
		}
		return p.Name()
	}
	imports := map[string]bool{}
	typeStr := func(t types.Type) string {
		return types.TypeString(t, func(p *types.Package) string {
			if p == fn.Pkg.Pkg {
				return ""
			}
			imports[p.Path()] = true
			return p.Name()
		})
	}
	_ = qual
	var setup strings.Builder
	declared := map[string]bool{}
	nilPtr := map[string]bool{}
	for i, in := range vc.replayIn {
		tv, ev := get(i)
		root := in.Path
		if j := strings.IndexByte(root, '.'); j >= 0 {
			root = root[:j]
		}
		// skip fields of a nil pointer
		skip := false
		for np := range nilPtr {
			if strings.HasPrefix(in.Path, np+".") {
				skip = true
			}
		}
		if skip {
			continue
		}
		isParam := !strings.Contains(in.Path, ".")
		lhs := in.Path
		assign := func(rhs string) {
			if isParam && !declared[lhs] {
				declared[lhs] = true
				fmt.Fprintf(&setup, "\tvar %s %s = %s\n", lhs, typeStr(in.Typ), rhs)
			} else {
				fmt.Fprintf(&setup, "\t%s = %s\n", lhs, rhs)
			}
		}
		switch in.Kind {
		case "scalar":
			if tv[0] == "?" {
				return "", "model value of " + in.Path + " not readable"
			}
			assign(fmt.Sprintf("%s(%s)", typeStr(in.Typ), tv[0]))
		case "bool":
			assign(tv[0])
		case "bytes":
			if tv[0] == "0" {
				assign("nil")
				break
			}
			ln, _ := strconv.Atoi(tv[2])
			cp, _ := strconv.Atoi(tv[3])
			if ln < 0 || ln > replayMaxElems || cp < ln || cp > 4096 {
				return "", fmt.Sprintf("slice %s has len %s cap %s in the model", in.Path, tv[2], tv[3])
			}
			et := typeStr(in.Typ.Underlying().(*types.Slice).Elem())
			var el []string
			for k := 0; k < ln; k++ {
				el = append(el, ev[k])
			}
			assign(fmt.Sprintf("append(make(%s, 0, %d), []%s{%s}...)", typeStr(in.Typ), cp, et, strings.Join(el, ", ")))
		case "slice-other":
			ln, _ := strconv.Atoi(tv[2])
			if tv[0] == "0" || ln < 0 || ln > replayMaxElems {
				assign("nil")
			} else {
				// a non-nil slice of that many zero elements (possibly empty)
				assign(fmt.Sprintf("make(%s, %d)", typeStr(in.Typ), ln))
			}
		case "string":
			ln, _ := strconv.Atoi(tv[2])
			if ln < 0 || ln > replayMaxElems {
				return "", "string too long in the model"
			}
			var el []string
			for k := 0; k < ln; k++ {
				el = append(el, ev[k])
			}
			assign(fmt.Sprintf("%s(string([]byte{%s}))", typeStr(in.Typ), strings.Join(el, ", ")))
		case "array":
			assign(fmt.Sprintf("%s{%s}", typeStr(in.Typ), strings.Join(ev, ", ")))
		case "ptr":
			if tv[0] == "0" {
				nilPtr[in.Path] = true
				assign("nil")
			} else {
				el := in.Typ.Underlying().(*types.Pointer).Elem()
				assign("new(" + typeStr(el) + ")")
			}
		case "iface", "ptr-other":
			assign("nil")
		}
	}
	// call
	sig := fn.Signature
	var args []string
	start := 0
	recv := ""
	if sig.Recv() != nil {
		recv = fn.Params[0].Name()
		start = 1
	}
	for _, p := range fn.Params[start:] {
		a := p.Name()
		if sig.Variadic() && p == fn.Params[len(fn.Params)-1] {
			a += "..."
		}
		args = append(args, a)
	}
	var resVars []string
	var resDecl strings.Builder
	resName := map[string]string{}
	for i := 0; i < sig.Results().Len(); i++ {
		rv := fmt.Sprintf("_r%d", i)
		resVars = append(resVars, rv)
		fmt.Fprintf(&resDecl, "\tvar %s %s\n", rv, typeStr(sig.Results().At(i).Type()))
		resName[fmt.Sprintf("result%d", i)] = rv
		if i == 0 {
			resName["result"] = rv
		}
		if n := sig.Results().At(i).Name(); n != "" && n != "_" {
			resName[n] = rv
		}
	}
	if vc.contract != nil && len(vc.contract.Results) > 0 {
		delete(resName, "result")
		for i, n := range vc.contract.Results {
			if i < len(resVars) {
				resName[n] = resVars[i]
			}
		}
	}
	call := fn.Name() + "(" + strings.Join(args, ", ") + ")"
	if recv != "" {
		call = recv + "." + call
	}
	if len(resVars) > 0 {
		call = strings.Join(resVars, ", ") + " = " + call
	}
	// clause
	clauseGo := ""
	var olds []string
	if o.Kind == "post" {
		cg, os_, err := translateClause(o.Src, resName)
		if err != "" {
			return "", "the clause is not translatable to Go (" + err + ")"
		}
		clauseGo, olds = cg, os_
	}
	var pres []string
	if vc.contract != nil {
		for _, rq := range vc.contract.Requires {
			pg, _, perr := translateClauseLazy(rq.Text, map[string]string{})
			if perr != "" {
				return "", "a precondition is not translatable to Go (" + perr + ")"
			}
			pres = append(pres, pg)
		}
	}
	var sb strings.Builder
	sb.WriteString("package " + fn.Pkg.Pkg.Name() + "\n\n")
	sb.WriteString("// Generated by govc: replay of a solver model against the real code.\n")
	sb.WriteString("// obligation: " + o.Name + "\n")
	if o.Src != "" {
		sb.WriteString("// clause: " + strings.ReplaceAll(o.Src, "\n", " ") + "\n")
	}
	sb.WriteString("\nimport (\n\t\"fmt\"\n\t\"testing\"\n")
	for p := range imports {
		sb.WriteString("\t" + strconv.Quote(p) + "\n")
	}
	sb.WriteString(")\n\n")
	sb.WriteString("func _govcForall(lo, hi int, f func(int) bool) bool {\n\tfor i := lo; i < hi; i++ {\n\t\tif !f(i) {\n\t\t\treturn false\n\t\t}\n\t}\n\treturn true\n}\n\n")
	sb.WriteString("func _govcUnknown() bool { panic(\"govc: not checkable in Go\") }\n\n")
	sb.WriteString("func _govcIsDigit(x interface{}) bool { s := fmt.Sprint(x); return len(s) == 2 && s >= \"48\" && s <= \"57\" }\n\n")
	sb.WriteString("func TestGovcReplay(t *testing.T) {\n")
	sb.WriteString(setup.String())
	sb.WriteString(resDecl.String())
	for _, pg := range pres {
		sb.WriteString("\tif !func() (ok bool) {\n\t\tdefer func() {\n\t\t\tif recover() != nil {\n\t\t\t\tok = false\n\t\t\t}\n\t\t}()\n\t\treturn " + pg + "\n\t}() {\n\t\tfmt.Println(\"GOVC-REPLAY pre=false (the candidate input does not meet the function's precondition)\")\n\t\treturn\n\t}\n")
	}
	for k, oe := range olds {
		fmt.Fprintf(&sb, "\t_old%d := %s\n", k, oe)
	}
	sb.WriteString("\tvar _panicked interface{}\n")
	sb.WriteString("\tfunc() {\n\t\tdefer func() { _panicked = recover() }()\n\t\t" + call + "\n\t}()\n")
	sb.WriteString("\tif _panicked != nil {\n\t\tfmt.Printf(\"GOVC-REPLAY panic: %v\\n\", _panicked)\n\t\treturn\n\t}\n")
	sb.WriteString("\tfmt.Println(\"GOVC-REPLAY returned\")\n")
	if clauseGo != "" {
		sb.WriteString("\tfmt.Printf(\"GOVC-REPLAY clause=%v\\n\", " + clauseGo + ")\n")
	}
	for _, rv := range resVars {
		sb.WriteString("\t_ = " + rv + "\n")
	}
	for k := range olds {
		fmt.Fprintf(&sb, "\t_ = _old%d\n", k)
	}
	sb.WriteString("}\n")
	return sb.String(), ""
}

// translateClause turns a contract clause into a Go boolean expression over the test's variables.
// old(e) becomes a snapshot taken before the call. Returns the expression, the snapshot
// expressions, and a reason when the clause uses something Go cannot evaluate (ghost state, the
// memory model's own functions).
func translateClauseLazy(text string, resName map[string]string) (string, []string, string) {
	lazyUnknown = true
	defer func() { lazyUnknown = false }()
	return translateClause(text, resName)
}

var lazyUnknown bool

func translateClause(text string, resName map[string]string) (string, []string, string) {
	e, err := parseContractExpr(text)
	if err != nil {
		return "", nil, err.Error()
	}
	var olds []string
	bad := ""
	fset := token.NewFileSet()
	show := func(n ast.Node) string {
		var b bytes.Buffer
		printer.Fprint(&b, fset, n)
		return b.String()
	}
	var tr func(e ast.Expr, inOld bool) string
	tr = func(e ast.Expr, inOld bool) string {
		switch x := e.(type) {
		case *ast.ParenExpr:
			return "(" + tr(x.X, inOld) + ")"
		case *ast.BasicLit:
			return x.Value
		case *ast.Ident:
			if x.Name == "ghost" {
				bad = "ghost state"
			}
			if r, ok := resName[x.Name]; ok {
				if inOld {
					bad = "result inside old()"
				}
				return r
			}
			return x.Name
		case *ast.SelectorExpr:
			if id, ok := x.X.(*ast.Ident); ok && id.Name == "ghost" {
				bad = "ghost state"
				return "false"
			}
			return tr(x.X, inOld) + "." + x.Sel.Name
		case *ast.IndexExpr:
			return tr(x.X, inOld) + "[" + tr(x.Index, inOld) + "]"
		case *ast.UnaryExpr:
			return x.Op.String() + tr(x.X, inOld)
		case *ast.BinaryExpr:
			return "(" + tr(x.X, inOld) + " " + x.Op.String() + " " + tr(x.Y, inOld) + ")"
		case *ast.CallExpr:
			id, ok := x.Fun.(*ast.Ident)
			if !ok {
				bad = "call " + show(x.Fun)
				return "false"
			}
			switch id.Name {
			case "implies":
				a := tr(x.Args[0], inOld)
				if lazyUnknown && bad == "" {
					b := tr(x.Args[1], inOld)
					if bad != "" {
						bad = ""
						b = "_govcUnknown()"
					}
					return "(!(" + a + ") || (" + b + "))"
				}
				return "(!(" + a + ") || (" + tr(x.Args[1], inOld) + "))"
			case "iff":
				return "((" + tr(x.Args[0], inOld) + ") == (" + tr(x.Args[1], inOld) + "))"
			case "len", "cap":
				return id.Name + "(" + tr(x.Args[0], inOld) + ")"
			case "old":
				if inOld {
					return tr(x.Args[0], true)
				}
				olds = append(olds, tr(x.Args[0], true))
				return fmt.Sprintf("_old%d", len(olds)-1)
			case "forall":
				if len(x.Args) != 4 {
					bad = "unbounded quantifier"
					return "false"
				}
				v := x.Args[0].(*ast.Ident).Name
				return "_govcForall(int(" + tr(x.Args[1], inOld) + "), int(" + tr(x.Args[2], inOld) + "), func(" + v + " int) bool { return " + tr(x.Args[3], inOld) + " })"
			case "isdigit":
				return "_govcIsDigit(" + tr(x.Args[0], inOld) + ")"
			}
			bad = "spec function " + id.Name
			return "false"
		}
		bad = fmt.Sprintf("expression %T", e)
		return "false"
	}
	s := tr(e, false)
	if bad != "" {
		return "", nil, bad
	}
	return s, olds, ""
}

// runReplayTest runs the generated test in the package directory through an overlay.
func runReplayTest(repo, pkgDir, testFile, kind string) (ran, confirmed bool, text string) {
	tmp, err := os.MkdirTemp("", "govc-replay")
	if err != nil {
		return false, false, err.Error()
	}
	defer os.RemoveAll(tmp)
	ov := map[string]map[string]string{"Replace": {filepath.Join(repo, pkgDir, "zz_govc_replay_test.go"): testFile}}
	b, _ := json.Marshal(ov)
	ovf := filepath.Join(tmp, "ov.json")
	os.WriteFile(ovf, b, 0o644)
	cmd := exec.Command("bash", "-c", "ulimit -v 6000000; exec go test -overlay "+ovf+" -v -vet=off -count=1 -timeout 60s -run '^TestGovcReplay$' ./"+pkgDir+"/")
	cmd.Dir = repo
	cmd.Env = append(os.Environ(), "GOFLAGS=-mod=mod", "GOPROXY=off", "GOSUMDB=off", "GOTOOLCHAIN=local")
	var buf bytes.Buffer
	cmd.Stdout = &buf
	cmd.Stderr = &buf
	cmd.Run()
	text = buf.String()
	if !strings.Contains(text, "GOVC-REPLAY") {
		return false, false, text
	}
	if strings.Contains(text, "GOVC-REPLAY pre=false") {
		return true, false, text
	}
	ran = true
	panicked := strings.Contains(text, "GOVC-REPLAY panic:")
	if panicKind(kind) {
		confirmed = panicked
	} else {
		confirmed = !panicked && strings.Contains(text, "GOVC-REPLAY clause=false")
	}
	return
}

func runReplay(repo, verif, path string) int {
	b, err := os.ReadFile(path)
	if err != nil {
		fmt.Println("cannot read", path, err)
		return 2
	}
	var rf ReplayFile
	if err := json.Unmarshal(b, &rf); err != nil {
		fmt.Println("not a replay file:", err)
		return 2
	}
	fmt.Println("obligation:", rf.Obligation)
	fmt.Println("position:  ", rf.Pos)
	if rf.Clause != "" {
		fmt.Println("clause:    ", rf.Clause)
	}
	fmt.Println("status:    ", rf.Status, "("+rf.Solver+")")
	if rf.Replay == nil || rf.Replay.TestFile == "" {
		fmt.Println("no replayable input was found for this obligation; solver output:")
		fmt.Println(rf.SolverOut)
		return 1
	}
	ran, confirmed, text := runReplayTest(repo, rf.Replay.Package, rf.Replay.TestFile, rf.Replay.Kind)
	fmt.Println(text)
	if ran && confirmed {
		fmt.Println("REPLAY: the real code shows the violation on the model's input")
		return 1
	}
	fmt.Println("REPLAY: the violation did not reproduce on the current tree")
	return 0
}
