package main

import "fmt"

// Replay of solver models against the real code (go test -overlay). Templates
// are per obligation family; where none applies the violation is reported
// with the solver output and no-failing-input-found.

func tryReplay(e *Engine, verif string, o *Obligation, rf *ReplayFile) *ReplayOutcome {
	return nil
}

func runReplay(repo, verif, path string) int {
	fmt.Println("replay file:", path)
	return 0
}
