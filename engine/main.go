package main

import (
	"encoding/json"
	"flag"
	"fmt"
	"os"
	"path/filepath"
	"regexp"
	"sort"
	"strings"
	"sync"
	"time"

	"golang.org/x/tools/go/ssa"
)

type LockEntry struct {
	Status string `json:"status"` // proved | open | known
	Kind   string `json:"kind"`
}

type Lock struct {
	Property    string               `json:"property"`
	Functions   []string             `json:"functions"`
	Obligations map[string]LockEntry `json:"obligations"`
}

type KnownFinding struct {
	Property   string   `json:"property"`
	Obligation string   `json:"obligation"`
	What       string   `json:"what"`
	Witness    string   `json:"witness"`
	Also       []string `json:"also,omitempty"` // further properties the same failing obligation counts against
}

// concerns: the finding is reported (KNOWN-FINDING line) under this property; under any other
// property that merely shares the function, the obligation is out of that property's claim.
func (k *KnownFinding) concerns(prop string) bool {
	if k.Property == prop {
		return true
	}
	for _, a := range k.Also {
		if a == prop {
			return true
		}
	}
	return false
}

type KnownFile struct {
	Findings []KnownFinding `json:"findings"`
	Fixed    []string       `json:"fixed"`
}

type PropCfg struct {
	Packages []string `json:"packages"`
}

func main() {
	if len(os.Args) < 2 {
		fmt.Println("usage: govc check|relock|dump|replay ...")
		os.Exit(2)
	}
	cmd := os.Args[1]
	fs := flag.NewFlagSet(cmd, flag.ExitOnError)
	prop := fs.String("prop", "", "property id")
	tier := fs.String("tier", "quick", "quick|thorough")
	repo := fs.String("repo", "/repo", "repository")
	verif := fs.String("verif", "", "verif dir (default: dir of the binary/..)")
	fnFilter := fs.String("func", "", "regexp on pkg::key (dump/check)")
	oblFilter := fs.String("obl", "", "regexp on obligation name (dump)")
	nocache := fs.Bool("nocache", false, "ignore the unsat cache")
	showModel := fs.Bool("model", false, "dump: solve and print the scalar part of the model")
	verbose := fs.Bool("v", false, "verbose")
	fs.Parse(os.Args[2:])
	if *verif == "" {
		exe, _ := os.Executable()
		*verif = filepath.Dir(filepath.Dir(exe))
	}
	if v := os.Getenv("VERIF_TIER"); v != "" && cmd == "check" {
		*tier = v
	}
	cacheDir = filepath.Join(*verif, "cache")
	if *nocache || *tier == "thorough" {
		useCache = false
	}
	var err error
	scratchDir, err = os.MkdirTemp("", "govc")
	if err != nil {
		fmt.Println(err)
		os.Exit(2)
	}
	defer os.RemoveAll(scratchDir)
	switch cmd {
	case "check", "relock":
		code := runCheck(*repo, *verif, *prop, *tier, *fnFilter, cmd == "relock", *verbose)
		os.RemoveAll(scratchDir)
		os.Exit(code)
	case "dump":
		runDump(*repo, *verif, *prop, *fnFilter, *oblFilter, *showModel)
	case "replay":
		if fs.NArg() < 1 {
			fmt.Println("usage: govc replay <path>")
			os.Exit(2)
		}
		os.Exit(runReplay(*repo, *verif, fs.Arg(0)))
	default:
		fmt.Println("unknown command", cmd)
		os.Exit(2)
	}
}

func propPackages(verif, prop string) []string {
	b, err := os.ReadFile(filepath.Join(verif, "props.json"))
	if err == nil {
		var m map[string]PropCfg
		if json.Unmarshal(b, &m) == nil {
			if c, ok := m[prop]; ok && len(c.Packages) > 0 {
				return c.Packages
			}
		}
	}
	return []string{"./..."}
}

type funcJob struct {
	key string
	fn  *ssa.Function
	c   *Contract
	vc  *VC
	err error
}

func collectJobs(e *Engine, prop, fnFilter string) ([]*funcJob, []string) {
	var jobs []*funcJob
	var missing []string
	var re *regexp.Regexp
	if fnFilter != "" {
		re = regexp.MustCompile(fnFilter)
	}
	keys := make([]string, 0, len(e.cs.Funcs))
	for k := range e.cs.Funcs {
		keys = append(keys, k)
	}
	sort.Strings(keys)
	for _, k := range keys {
		c := e.cs.Funcs[k]
		if c.Kind != "func" {
			continue
		}
		if prop != "" && !c.hasProp(prop) {
			continue
		}
		if re != nil && !re.MatchString(k) {
			continue
		}
		fn := e.funcs[k]
		if fn == nil {
			missing = append(missing, k)
			continue
		}
		jobs = append(jobs, &funcJob{key: k, fn: fn, c: c})
	}
	return jobs, missing
}

func runDump(repo, verif, prop, fnFilter, oblFilter string, showModel bool) {
	e, err := loadEngine(repo, verif, propPackages(verif, prop))
	if err != nil {
		fmt.Println("load:", err)
		os.Exit(2)
	}
	jobs, missing := collectJobs(e, prop, fnFilter)
	for _, m := range missing {
		fmt.Println("MISSING function for contract", m)
	}
	var ore *regexp.Regexp
	if oblFilter != "" {
		ore = regexp.MustCompile(oblFilter)
	}
	for _, j := range jobs {
		vc, err := e.verifyFunc(j.fn, j.c)
		if err != nil {
			fmt.Println("ERROR", j.key, err)
			continue
		}
		fmt.Printf("== %s: %d obligations\n", j.key, len(vc.obls))
		for _, o := range vc.obls {
			if ore != nil && !ore.MatchString(o.Name) {
				fmt.Println("  ", o.Name)
				continue
			}
			fmt.Println("----", o.Name, o.Pos)
			if ore != nil && showModel {
				useCache = false
				r := solve(vc.script(o, true), 20, false)
				fmt.Println("status:", r.Status, r.Solver)
				m := parseModel(r.Output)
				var ks []string
				for k := range m {
					ks = append(ks, k)
				}
				sort.Strings(ks)
				for _, k := range ks {
					fmt.Printf("  %s = %s\n", k, m[k])
				}
				fmt.Println("goal:", o.Goal)
				fmt.Println("reach:", o.Reach)
			} else if ore != nil {
				fmt.Println(vc.script(o, true))
			}
		}
		for n, c := range vc.notes {
			fmt.Printf("  note: %s (x%d)\n", n, c)
		}
	}
}

func runCheck(repo, verif, prop, tier, fnFilter string, relock, verbose bool) int {
	t0 := time.Now()
	if prop == "" {
		fmt.Println("need -prop")
		return 2
	}
	replayDir := filepath.Join(verif, "replays", prop)
	os.MkdirAll(replayDir, 0o755)
	fail := func(name, msg string) int {
		// engine-level failure: the check cannot decide; report as violation without input
		p := filepath.Join(replayDir, "engine-"+scriptHash(name + msg)[:10]+".json")
		b, _ := json.MarshalIndent(map[string]string{"property": prop, "obligation": name, "status": "engine-error", "detail": msg}, "", " ")
		os.WriteFile(p, b, 0o644)
		fmt.Printf("VIOLATION property=%s replay=%s obligation=%s %s no-failing-input-found\n", prop, p, name, oneLine(msg))
		return 1
	}
	e, err := loadEngine(repo, verif, propPackages(verif, prop))
	if err != nil {
		writeEvidence(verif, prop, tier, nil, nil, nil, nil, time.Since(t0).Seconds(), 1, []string{"load error: " + err.Error()})
		return fail("load", err.Error())
	}
	loadS := time.Since(t0).Seconds()
	jobs, missing := collectJobs(e, prop, fnFilter)
	// generate VCs in parallel
	var wg sync.WaitGroup
	sem := make(chan struct{}, 1) // go/types objects are not safe for concurrent mutation of caches; generate sequentially
	for _, j := range jobs {
		wg.Add(1)
		go func(j *funcJob) {
			defer wg.Done()
			sem <- struct{}{}
			defer func() { <-sem }()
			j.vc, j.err = e.verifyFunc(j.fn, j.c)
		}(j)
	}
	wg.Wait()
	genS := time.Since(t0).Seconds() - loadS
	var obls []*Obligation
	for _, j := range jobs {
		if j.vc != nil && j.err == nil {
			obls = append(obls, j.vc.obls...)
		}
	}
	// structural rules and lemmas
	sobls := e.structuralObligations(prop)
	obls = append(obls, sobls...)
	lobls := e.lemmaObligations(prop)
	obls = append(obls, lobls...)
	// solve
	timeout := 20
	confirm := false
	if tier == "thorough" {
		timeout = 120
		confirm = true
	}
	knownEarly := readKnown(verif)
	work := make(chan *Obligation)
	var swg sync.WaitGroup
	for w := 0; w < 10; w++ {
		swg.Add(1)
		go func() {
			defer swg.Done()
			for o := range work {
				if o.Struct {
					continue
				}
				var script string
				if o.vc != nil {
					script = o.vc.script(o, false)
				} else {
					script = o.Goal // lemma: full script
				}
				if o.Kind == "vacuity" {
					o.Res = solve(script, 2, false)
					if o.Res.Status == "unsat" && o.BeforeReach != "" {
						// infeasible after the call: vacuous only if the path was feasible before it
						b := *o
						b.Upto, b.Reach = o.BeforeUpto, o.BeforeReach
						rb := solve(o.vc.script(&b, false), 2, false)
						if rb.Status == "unsat" {
							o.Res.Status = "unknown" // dead path, not a contradiction introduced by the callee contract
							o.Res.Output = "path infeasible already before the call"
						}
					}
				} else if knownEarly.find(prop, o.Name) != nil {
					// a recorded finding: only a proof (unsat) would change its status
					o.Res = solve(script, 3, false)
				} else {
					o.Res = solve(script, timeout, confirm)
					if (o.Res.Status == "timeout" || o.Res.Status == "unknown") && o.vc != nil {
						// the exit state is a merge of paths: (reach1 or reach2 ...) and not goal is
						// unsatisfiable iff every (reach_k and not goal) is; the cases are much smaller
						rr := o.Reach
						if d, ok := o.vc.reachDef[rr]; ok {
							rr = d
						}
						if parts := reachDisjuncts(rr); len(parts) > 1 && len(parts) <= 12 {
							all := true
							var secs float64
							for _, pr := range parts {
								c := *o
								c.Reach = pr
								r := solve(o.vc.script(&c, false), timeout, confirm)
								secs += r.Seconds
								if r.Status != "unsat" {
									all = false
									break
								}
							}
							if all {
								o.Res = SolverResult{Status: "unsat", Solver: fmt.Sprintf("portfolio, %d path cases", len(parts)), Seconds: secs}
							}
						}
					}
				}
			}
		}()
	}
	for _, o := range obls {
		work <- o
	}
	close(work)
	swg.Wait()

	// second chance: an obligation that ran out of time while the pool kept every core busy is
	// solved again with the machine to itself (one query at a time, its portfolio in parallel,
	// twice the time). This only ever turns "no answer" into a proof; a "sat" stays a "sat".
	var late []*Obligation
	for _, o := range obls {
		if o.Struct || o.Kind == "vacuity" || o.vc == nil {
			continue
		}
		if o.Res.Status != "timeout" && o.Res.Status != "unknown" {
			continue
		}
		if knownEarly.find(prop, o.Name) != nil {
			continue
		}
		late = append(late, o)
	}
	if len(late) > 6 {
		late = nil // not a scheduling accident: report them as they are
	}
	for _, o := range late {
		r := solve(o.vc.script(o, false), 2*timeout, confirm)
		if r.Status == "unsat" {
			r.Solver += " (second pass)"
			o.Res = r
		}
	}

	// verdicts
	lock := readLock(verif, prop)
	known := readKnown(verif)
	violations := 0
	var proved, open, knownHit []*Obligation
	var viol []*Obligation
	seen := map[string]bool{}
	for _, o := range obls {
		seen[o.Name] = true
		ok := false
		switch {
		case o.Struct:
			ok = o.StructOK
		case o.Kind == "vacuity":
			ok = o.Res.Status == "sat" || o.Res.Status == "unknown" || o.Res.Status == "timeout"
		default:
			ok = o.Res.Status == "unsat"
		}
		if ok {
			proved = append(proved, o)
			continue
		}
		if kf := known.find(prop, o.Name); kf != nil {
			if kf.concerns(prop) {
				knownHit = append(knownHit, o)
			} else {
				open = append(open, o)
			}
			continue
		}
		if le, okl := lock.Obligations[o.Name]; okl && le.Status == "open" && !relock {
			open = append(open, o)
			continue
		}
		if relock {
			open = append(open, o)
			continue
		}
		viol = append(viol, o)
	}
	var extra []string
	if !relock {
		for _, m := range missing {
			violations++
			fail("contract:"+m, "the contract file names a function that does not exist in the current tree")
		}
		for _, j := range jobs {
			if j.err != nil {
				violations++
				fail("vcgen:"+j.key, j.err.Error())
			}
		}
		// proved obligations of explicit kinds that are no longer generated
		var names []string
		for n := range lock.Obligations {
			names = append(names, n)
		}
		sort.Strings(names)
		for _, n := range names {
			le := lock.Obligations[n]
			if seen[n] || le.Status != "proved" {
				continue
			}
			switch le.Kind {
			case "post", "post_panic", "nopanic", "inv_entry", "inv_keep", "lemma", "struct", "decreases", "table":
				if fnFilter != "" {
					continue
				}
				// was the function's VC generated at all? (vcgen error already reported)
				violations++
				fail(n, "an obligation that carries a clause of the property on the committed tree is no longer generated")
			}
		}
		for _, o := range viol {
			violations++
			p := writeReplay(e, verif, prop, o)
			tail := ""
			if !replayConfirms(p) {
				tail = " no-failing-input-found"
			}
			fmt.Printf("VIOLATION property=%s replay=%s obligation=%s status=%s%s\n", prop, p, o.Name, statusOf(o), tail)
		}
		for _, o := range knownHit {
			kf := known.find(prop, o.Name)
			fmt.Printf("KNOWN-FINDING: property=%s %s %s\n", prop, o.Name, kf.What)
		}
	} else {
		for _, j := range jobs {
			if j.err != nil {
				fmt.Println("ERROR vcgen", j.key, j.err)
				extra = append(extra, "vcgen error: "+j.key+": "+j.err.Error())
			}
		}
		for _, m := range missing {
			fmt.Println("MISSING function for contract", m)
		}
		nl := &Lock{Property: prop, Obligations: map[string]LockEntry{}}
		for _, j := range jobs {
			nl.Functions = append(nl.Functions, j.key)
		}
		for _, o := range proved {
			nl.Obligations[o.Name] = LockEntry{"proved", o.Kind}
		}
		for _, o := range open {
			nl.Obligations[o.Name] = LockEntry{"open", o.Kind}
			fmt.Printf("OPEN %s status=%s %s\n", o.Name, statusOf(o), o.Pos)
		}
		for _, o := range knownHit {
			nl.Obligations[o.Name] = LockEntry{"known", o.Kind}
			fmt.Printf("KNOWN %s\n", o.Name)
		}
		if fnFilter == "" {
			writeLock(verif, prop, nl)
		}
	}
	if verbose {
		for _, o := range proved {
			fmt.Printf("ok   %-8s %6.2fs %-12s %s\n", o.Kind, o.Res.Seconds, o.Res.Solver, o.Name)
		}
	}
	wall := time.Since(t0).Seconds()
	writeEvidence(verif, prop, tier, e, jobs, obls, map[string][]*Obligation{"proved": proved, "open": open, "known": knownHit, "viol": viol}, wall, violations, extra)
	fmt.Printf("property %s tier %s: %d obligations generated, %d discharged, %d open (not claimed), %d known findings, %d violations; load %.1fs gen %.1fs total %.1fs\n",
		prop, tier, len(obls), len(proved), len(open), len(knownHit), violations, loadS, genS, wall)
	if violations > 0 {
		return 1
	}
	return 0
}

func statusOf(o *Obligation) string {
	if o.Struct {
		return "structural-check-failed"
	}
	if o.Kind == "vacuity" {
		return "precondition-unsatisfiable"
	}
	return o.Res.Status
}

func oneLine(s string) string {
	s = strings.Join(strings.Fields(s), " ")
	if len(s) > 300 {
		s = s[:300]
	}
	return s
}

func readLock(verif, prop string) *Lock {
	l := &Lock{Property: prop, Obligations: map[string]LockEntry{}}
	b, err := os.ReadFile(filepath.Join(verif, "lock", prop+".json"))
	if err != nil {
		return l
	}
	json.Unmarshal(b, l)
	if l.Obligations == nil {
		l.Obligations = map[string]LockEntry{}
	}
	return l
}

// reachDisjuncts: the top-level disjuncts of a reach condition (a merge of paths)
func reachDisjuncts(r Term) []Term {
	if !strings.HasPrefix(r, "(or ") {
		return nil
	}
	args := sexprArgs(r)
	if len(args) < 3 {
		return nil
	}
	var out []Term
	for _, a := range args[1:] {
		if sub := reachDisjuncts(a); len(sub) > 1 {
			out = append(out, sub...)
		} else {
			out = append(out, a)
		}
	}
	return out
}

func writeLock(verif, prop string, l *Lock) {
	os.MkdirAll(filepath.Join(verif, "lock"), 0o755)
	sort.Strings(l.Functions)
	b, _ := json.MarshalIndent(l, "", " ")
	os.WriteFile(filepath.Join(verif, "lock", prop+".json"), append(b, '\n'), 0o644)
}

func readKnown(verif string) *KnownFile {
	k := &KnownFile{}
	b, err := os.ReadFile(filepath.Join(verif, "known_findings.json"))
	if err != nil {
		return k
	}
	json.Unmarshal(b, k)
	return k
}

// find: a recorded finding is identified by the obligation (call site / clause) that fails; the
// same obligation can belong to several properties.
func (k *KnownFile) find(prop, obl string) *KnownFinding {
	for i := range k.Findings {
		if k.Findings[i].Obligation == obl {
			return &k.Findings[i]
		}
	}
	return nil
}
