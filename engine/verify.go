package main

import (
	"fmt"
	"go/types"
	"os"
	"regexp"
	"sort"
	"strings"

	"golang.org/x/tools/go/ssa"
)

// verifyFunc generates the VC of one function under contract.
func (e *Engine) verifyFunc(fn *ssa.Function, c *Contract) (vc *VC, err error) {
	vc = newVC(e, fn, c)
	defer func() {
		if r := recover(); r != nil {
			if ee, ok := r.(evalErr); ok {
				err = fmt.Errorf("%s", ee.msg)
				return
			}
			if os.Getenv("GOVC_DEBUG") != "" {
				panic(r)
			}
			err = fmt.Errorf("internal error in the VC generator: %v", r)
		}
	}()
	fr := vc.newFrame(fn, nil)
	st := &State{reach: "true", heap: map[string]Term{}, deferOn: map[*ssa.Defer]Term{}}
	for _, p := range fn.Params {
		v := vc.freshValue(p.Name(), p.Type(), st)
		fr.vals[p] = v
		vc.assumeAlways(vc.allocFacts(st, v, p.Type()))
	}
	for _, p := range fn.FreeVars {
		v := vc.freshValue("free."+p.Name(), p.Type(), st)
		vc.assumeAlways("(> " + v.C[0] + " 0)")
		vc.assumeAlways(vc.allocFacts(st, v, p.Type()))
		fr.vals[p] = v
	}
	// global invariants (immutable globals only)
	for _, g := range e.cs.Globals {
		pkg := e.pkgTypes(g.Pkg)
		if pkg == nil {
			continue
		}
		if !e.relevantPkg(fn, g.Pkg) {
			continue
		}
		v, _, err := fr.evalIn(g.Text, pkg, map[string]bound{}, st, st, nil)
		if err != nil {
			return vc, fmt.Errorf("%s:%d: %v", g.File, g.Line, err)
		}
		vc.assumeAlways(v.C[0])
		vc.assumed["global invariant: "+g.Text] = true
	}
	if tn := c.Flags["implements"]; tn != "" {
		// behavioural subtyping: this function must meet the named function-type contract
		key := tn
		if !strings.Contains(key, "::") {
			key = c.Pkg + "::" + tn
		}
		tc := e.cs.Types[key]
		if tc == nil {
			return vc, fmt.Errorf("%s:%d: implements %s: no such type contract", c.File, c.Line, tn)
		}
		c = mergeImplements(c, tc, fn)
		vc.contract = c
		fr.contract = c
	}
	// calls(F): the number of direct calls of F this activation has made (a local counter kept by
	// the generator, untouched by callees and by havoc; 0 on entry)
	for _, n := range callCounterNames(c) {
		vc.set(st, "S.calls:"+n, "Int", "0")
	}
	fr.entry = st.clone()
	for _, l := range c.Lets {
		v, t, err := fr.evalExprText(l.Text, st, st, nil)
		if err != nil {
			return vc, fmt.Errorf("%s:%d: %v", l.File, l.Line, err)
		}
		fr.lets[l.Label] = bound{v, t}
	}
	for _, r := range c.Requires {
		t, err := fr.evalClause(r, st, st, nil)
		if err != nil {
			return vc, fmt.Errorf("%s:%d: %v", r.File, r.Line, err)
		}
		vc.assumeAlways(t)
	}
	for _, sl := range c.Stable {
		if strings.HasSuffix(sl, "[*]") {
			locs, lerr := fr.resolveLoc(sl, fn.Pkg.Pkg, nil, st, st)
			if lerr != nil {
				return vc, fmt.Errorf("%s:%d: stable %s: %v", c.File, c.Line, sl, lerr)
			}
			for _, l := range locs {
				if l.ElemArr != "" {
					return vc, fmt.Errorf("%s:%d: stable %s: not supported on a slice of structs", c.File, c.Line, sl)
				}
				vc.get(st, l.Key, l.Sort)
				vc.stable = append(vc.stable, &Shape{Kind: ShField, Key: l.Key, Base: l.Idx[0]})
			}
			vc.assumed["unknown calls do not modify "+sl+" (unexported state; sequential view)"] = true
			continue
		}
		e2, perr := parseContractExpr(sl)
		if perr != nil {
			return vc, perr
		}
		ec := &evalCtx{vc: vc, fr: fr, pkg: fn.Pkg.Pkg, lookup: fr.frameLookup(nil), cur: st, old: st, qvars: map[string]bound{}}
		var p Value
		var pt types.Type
		func() {
			defer func() {
				if r := recover(); r != nil {
					if ee, ok := r.(evalErr); ok {
						err = fmt.Errorf("%s:%d: stable %s: %s", c.File, c.Line, sl, ee.msg)
						return
					}
					panic(r)
				}
			}()
			p, pt = ec.evalAddr(e2)
		}()
		if err != nil {
			return vc, err
		}
		sh := p.Sh
		if sh == nil {
			sh = &Shape{Kind: ShCell, Key: "C." + typeKey(pt), Base: p.C[0], Typ: pt}
		}
		// make sure the families exist before the first havoc
		vc.load(st, p, pt)
		vc.stable = append(vc.stable, sh)
		vc.assumed["unknown calls do not modify "+sl+" (unexported state; see the encapsulation rule of its package)"] = true
	}
	// vacuity guard: the precondition must be satisfiable
	vc.oblige(st, "vacuity", "requires_satisfiable", "false", fn.Pos(), "")
	vc.obls[len(vc.obls)-1].Kind = "vacuity"
	// the assumption "false" added by oblige must not stay
	vc.cmds = vc.cmds[:len(vc.cmds)-1]
	// pre-register the heap families the postconditions mention
	{
		snap := vc.snapshot()
		env := fr.resultEnv(nil, true)
		for _, en := range append(append([]*Clause{}, c.Ensures...), c.EnsPanic...) {
			fr.evalClause(en, st, st, env)
		}
		vc.restore(snap)
	}
	vc.collectReplayInputs(fr, st)
	fr.entry = st.clone()
	res, err := fr.execBody(st)
	if err != nil {
		return vc, err
	}
	if res.normal != nil {
		vc.cover(res.normal, "normal_exit", fn.Pos())
		env := fr.resultEnv(res.results, false)
		for _, en := range c.Ensures {
			t, sks, err := fr.evalGoal(en, res.normal, fr.entry, env)
			if err != nil {
				return vc, fmt.Errorf("%s:%d: %v", en.File, en.Line, err)
			}
			vc.obligeHinted(res.normal, "post", c.clauseName(en), t, sks, fn.Pos(), en.Text)
		}
		if err := fr.frameObligations(c, res.normal, "frame"); err != nil {
			return vc, err
		}
	}
	if res.panicSt != nil {
		if c.Flags["nopanic"] != "" {
			vc.oblige(res.panicSt, "nopanic", "no_panic_escapes", "false", fn.Pos(), "")
		}
		for _, en := range c.EnsPanic {
			t, err := fr.evalClause(en, res.panicSt, fr.entry, nil)
			if err != nil {
				return vc, fmt.Errorf("%s:%d: %v", en.File, en.Line, err)
			}
			vc.oblige(res.panicSt, "post_panic", c.clauseName(en), t, fn.Pos(), en.Text)
		}
		if err := fr.frameObligations(c, res.panicSt, "frame_panic"); err != nil {
			return vc, err
		}
	} else if c.Flags["nopanic"] != "" {
		// no exceptional exit exists at all: discharged by construction
		st0 := &State{reach: "false", heap: map[string]Term{}}
		vc.oblige(st0, "nopanic", "no_panic_escapes", "false", fn.Pos(), "")
	}
	if len(vc.errs) > 0 {
		return vc, fmt.Errorf("%s", strings.Join(vc.errs, "; "))
	}
	return vc, nil
}

func (e *Engine) relevantPkg(fn *ssa.Function, pkgPath string) bool {
	if fn.Pkg.Pkg.Path() == pkgPath {
		return true
	}
	for _, imp := range fn.Pkg.Pkg.Imports() {
		if imp.Path() == pkgPath {
			return true
		}
	}
	return false
}

// resultEnv binds result names for postconditions
func (fr *Frame) resultEnv(results []Value, dummy bool) map[string]bound {
	env := map[string]bound{}
	rt := fr.fn.Signature.Results()
	for i := 0; i < rt.Len(); i++ {
		var v Value
		if dummy {
			v = fr.vc.freshValue("dummy", rt.At(i).Type(), nil)
		} else {
			v = results[i]
		}
		b := bound{v, rt.At(i).Type()}
		env[fmt.Sprintf("result%d", i)] = b
		// `results a b` in the contract names the results (needed when a parameter is called result)
		named := fr.contract != nil && len(fr.contract.Results) > 0
		if i == 0 && !named {
			env["result"] = b
		}
		if named && i < len(fr.contract.Results) {
			env[fr.contract.Results[i]] = b
		} else if n := rt.At(i).Name(); n != "" && n != "_" {
			env[n] = b
		}
	}
	return env
}

// mergeImplements builds the contract a function must meet to implement a function-type
// contract: the type contract's clauses, with its parameter names bound to this function's
// parameters by position (as let-bindings), plus the function's own clauses.
func mergeImplements(c, tc *Contract, fn *ssa.Function) *Contract {
	n := *c
	n.Lets = nil
	for i, pn := range tc.Params {
		if i < len(fn.Params) && fn.Params[i].Name() != pn {
			n.Lets = append(n.Lets, &Clause{Kind: "let", Label: pn, Text: fn.Params[i].Name(), File: tc.File, Line: tc.Line})
		}
	}
	n.Lets = append(n.Lets, tc.Lets...)
	n.Lets = append(n.Lets, c.Lets...)
	n.Modifies = append(append([]string{}, tc.Modifies...), c.Modifies...)
	n.Requires = append(append([]*Clause{}, tc.Requires...), c.Requires...)
	n.Ensures = append(append([]*Clause{}, tc.Ensures...), c.Ensures...)
	n.EnsPanic = append(append([]*Clause{}, tc.EnsPanic...), c.EnsPanic...)
	if tc.Flags["nopanic"] != "" {
		n.Flags = map[string]string{}
		for k, v := range c.Flags {
			n.Flags[k] = v
		}
		n.Flags["nopanic"] = "1"
	}
	return &n
}

var callsRe = regexp.MustCompile(`\bcalls\(([A-Za-z_][A-Za-z0-9_$]*)\)`)

func callCounterNames(c *Contract) []string {
	if c == nil {
		return nil
	}
	seen := map[string]bool{}
	var out []string
	add := func(cls []*Clause) {
		for _, cl := range cls {
			for _, m := range callsRe.FindAllStringSubmatch(cl.Text, -1) {
				if !seen[m[1]] {
					seen[m[1]] = true
					out = append(out, m[1])
				}
			}
		}
	}
	add(c.Requires)
	add(c.Ensures)
	add(c.EnsPanic)
	for _, l := range c.Loops {
		add(l.Invariants)
		add(l.IterEns)
	}
	for _, l := range c.AtCall {
		add(l)
	}
	sort.Strings(out)
	return out
}
