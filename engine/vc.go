package main

// VC: the per-function verification-condition builder. Holds the SMT command
// stream (declarations, definitional equalities, guarded assumptions), the
// obligations, and the heap bookkeeping.

import (
	"fmt"
	"go/token"
	"go/types"
	"sort"
	"strconv"
	"strings"

	"golang.org/x/tools/go/ssa"
)

type Obligation struct {
	Name        string
	Kind        string // index slice make div nilmap typeassert pre post post_panic inv_entry inv_keep nopanic frame ovf lemma struct chansend ...
	Func        string // pkg::key of the function under contract
	Goal        Term
	Reach       Term
	Upto        int
	Pos         string
	Src         string
	vc          *VC
	Res         SolverResult
	Struct      bool // discharged structurally (no SMT)
	StructOK    bool
	StructMsg   string
	Props       []string
	Vars        []string // symbols of interest for the model
	BeforeUpto  int      // cover after a call: prefix length and reach before the call
	BeforeReach Term
	Extra       []string // assertions for this obligation only (instances of universal assumptions)
}

type allocInfo struct {
	ref     Term
	typ     types.Type
	escaped bool
}

type closureInfo struct {
	fn       *ssa.Function
	bindings []Value
}

type VC struct {
	replayOK bool          // the function's inputs can be set up by a generated test
	replayIn []replayInput // its input locations (entry state)
	embTerms []Term // addresses of embedded parts seen so far (never equal to a fresh object)
	reachDef map[Term]Term // named merge conditions: name -> (or path1 path2 ...)
	eng      *Engine
	root     *ssa.Function
	rootKey  string
	contract *Contract
	cmds     []string
	decls    []string
	declared map[string]bool
	nfresh   int
	nalloc   int
	ninst    int
	obls     []*Obligation
	oblNames map[string]int
	famSort  map[string]string
	allocs   []*allocInfo
	closures map[Term]*closureInfo
	funcRefs map[Term]*ssa.Function
	embSeen  map[string]bool
	strLits  map[string]Term
	notes    map[string]int // abstraction notes -> count
	assumed  map[string]bool
	arith    string // math | wrap | exact
	epochN   int
	boxDecl  map[string]bool
	curPos   token.Pos
	errs     []string
	stable   []*Shape            // locations unknown calls are assumed not to touch
	inQuant  int                 // >0 while evaluating under a quantifier: terms mention bound variables
	univ     []func(inst []Term) // re-states the universal assumptions made so far at given terms
	capture  *[]string
}

func newVC(e *Engine, fn *ssa.Function, c *Contract) *VC {
	vc := &VC{eng: e, root: fn, contract: c, declared: map[string]bool{}, oblNames: map[string]int{},
		famSort: map[string]string{}, closures: map[Term]*closureInfo{}, strLits: map[string]Term{},
		notes: map[string]int{}, assumed: map[string]bool{}, boxDecl: map[string]bool{}}
	vc.rootKey = fn.Pkg.Pkg.Path() + "::" + funcKey(fn)
	vc.arith = "math"
	if c != nil && c.Flags["arith"] != "" {
		vc.arith = c.Flags["arith"]
	}
	return vc
}

func (vc *VC) emit(cmd string) {
	if vc.capture != nil {
		*vc.capture = append(*vc.capture, cmd)
		return
	}
	vc.cmds = append(vc.cmds, cmd)
}

func (vc *VC) declare(name, sort string) {
	if vc.declared[name] {
		return
	}
	vc.declared[name] = true
	vc.decls = append(vc.decls, "(declare-fun "+name+" () "+sort+")")
}

func (vc *VC) declareFun(name string, args []string, ret string) {
	if vc.declared[name] {
		return
	}
	vc.declared[name] = true
	vc.decls = append(vc.decls, "(declare-fun "+name+" ("+strings.Join(args, " ")+") "+ret+")")
}

func (vc *VC) fresh(prefix, sort string) Term {
	vc.nfresh++
	n := sym(fmt.Sprintf("%s!%d", prefix, vc.nfresh))
	vc.declare(n, sort)
	return n
}

func (vc *VC) note(s string) { vc.notes[s]++ }

// groundIndexTerms: the index terms of array reads in a goal that mention no bound variable.
// The universal assumptions made so far are additionally stated at these terms (instances of
// statements already assumed), which is what the proof of a pointwise goal needs.
func groundIndexTerms(goal Term, max int) []Term {
	var out []Term
	seen := map[Term]bool{}
	var walk func(t Term)
	walk = func(t Term) {
		if len(out) >= max || !strings.HasPrefix(t, "(") {
			return
		}
		args := sexprArgs(t)
		if len(args) == 0 {
			return
		}
		if args[0] == "select" && len(args) == 3 {
			ix := args[2]
			if !strings.Contains(ix, "!q") && !seen[ix] {
				if _, isConst := isBigConst(ix); !isConst && !strings.HasPrefix(ix, "(str_id") {
					seen[ix] = true
					out = append(out, ix)
				}
			}
		}
		if args[0] == "forall" || args[0] == "exists" {
			return
		}
		for _, a := range args[1:] {
			walk(a)
		}
	}
	walk(goal)
	return out
}

// expandMacros: one level of textual expansion of non-recursive spec definitions, so that the
// array reads they stand for are visible when instantiation terms are collected.
func (vc *VC) expandMacros(t Term, depth int) Term {
	if depth > 3 || !strings.HasPrefix(t, "(") {
		return t
	}
	args := sexprArgs(t)
	if len(args) == 0 {
		return t
	}
	for i := 1; i < len(args); i++ {
		args[i] = vc.expandMacros(args[i], depth)
	}
	if m, ok := vc.eng.cs.Macros[strings.Trim(args[0], "|")]; ok && len(m.Params) == len(args)-1 {
		body := m.Body
		// substitute parameters (token-wise)
		toks := tokenize(body)
		for i, tk := range toks {
			for k, p := range m.Params {
				if tk == p {
					toks[i] = args[k+1]
				}
			}
		}
		var sb strings.Builder
		for i, tk := range toks {
			if i > 0 && tk != ")" && toks[i-1] != "(" {
				sb.WriteByte(' ')
			}
			sb.WriteString(tk)
		}
		return vc.expandMacros(sb.String(), depth+1)
	}
	return "(" + strings.Join(args, " ") + ")"
}

// obligeHinted: oblige with instances of the universal assumptions, local to this obligation.
func (vc *VC) obligeHinted(st *State, kind, name string, goal Term, sks []Term, pos token.Pos, src string) *Obligation {
	var buf []string
	old := vc.capture
	vc.capture = &buf
	vc.instantiateForGoal(goal, sks)
	vc.capture = old
	o := vc.oblige(st, kind, name, goal, pos, src)
	if o != nil {
		o.Extra = buf
	}
	return o
}

func (vc *VC) instantiateForGoal(goal Term, sks []Term) {
	var inst []Term
	for _, sk := range sks {
		inst = append(inst, sk, iSub(sk, "1"), iAdd(sk, "1"))
	}
	inst = append(inst, groundIndexTerms(vc.expandMacros(goal, 0), 24)...)
	if len(inst) == 0 {
		return
	}
	for _, g := range vc.univ {
		g(inst)
	}
}

// instantiateAt: every universal assumption made so far (loop invariants at their cut,
// callee postconditions) is additionally stated at the given terms (and their neighbours).
// Sound: these are instances of statements already assumed.
func (vc *VC) instantiateAt(sks []Term) {
	if len(sks) == 0 {
		return
	}
	var inst []Term
	for _, sk := range sks {
		inst = append(inst, sk, iSub(sk, "1"), iAdd(sk, "1"))
	}
	for _, g := range vc.univ {
		g(inst)
	}
}

// name a term if it is large
func (vc *VC) define(prefix, sort string, t Term) Term {
	if len(t) <= 160 || vc.inQuant > 0 {
		return t
	}
	n := vc.fresh(prefix, sort)
	vc.emit("(assert (= " + n + " " + t + "))")
	return n
}

func (vc *VC) assume(st *State, t Term) {
	if t == "true" {
		return
	}
	// one assertion per conjunct, so that a quantified conjunct can be dropped (quantifier-free
	// portfolio member) or sliced without losing its plain neighbours
	if strings.Contains(t, "(forall ") {
		for _, c := range splitConj(t, 0) {
			vc.emit("(assert " + sImp(st.reach, c) + ")")
		}
		return
	}
	vc.emit("(assert " + sImp(st.reach, t) + ")")
}

// splitConj: (and A B) -> A, B ; (=> P (and A B)) -> (=> P A), (=> P B) ; recursively.
func splitConj(t Term, depth int) []Term {
	if depth > 6 || !strings.Contains(t, "(forall ") {
		return []Term{t}
	}
	if strings.HasPrefix(t, "(and ") {
		args := sexprArgs(t)
		if len(args) >= 2 {
			var out []Term
			for _, a := range args[1:] {
				out = append(out, splitConj(a, depth+1)...)
			}
			return out
		}
	}
	if strings.HasPrefix(t, "(=> ") {
		args := sexprArgs(t)
		if len(args) == 3 {
			var out []Term
			for _, c := range splitConj(args[2], depth+1) {
				out = append(out, sImp(args[1], c))
			}
			return out
		}
	}
	return []Term{t}
}

func (vc *VC) assumeAlways(t Term) {
	if t == "true" || vc.inQuant > 0 {
		return
	}
	vc.emit("(assert " + t + ")")
}

func (vc *VC) oblige(st *State, kind, name string, goal Term, pos token.Pos, src string) *Obligation {
	if goal == "true" {
		// trivially true: still count as an obligation (discharged by the generator's folding) only for explicit kinds
		switch kind {
		case "post", "post_panic", "inv_entry", "inv_keep", "pre", "nopanic", "lemma":
		default:
			return nil
		}
	}
	full := shortPkg(vc.root.Pkg.Pkg.Path()) + "." + funcKey(vc.root) + "#" + kind + ":" + name
	vc.oblNames[full]++
	if n := vc.oblNames[full]; n > 1 {
		full = fmt.Sprintf("%s#%d", full, n)
	}
	o := &Obligation{Name: full, Kind: kind, Func: vc.rootKey, Goal: goal, Reach: st.reach, Upto: len(vc.cmds), vc: vc, Src: src}
	if pos.IsValid() {
		p := vc.eng.fset.Position(pos)
		o.Pos = fmt.Sprintf("%s:%d", strings.TrimPrefix(p.Filename, vc.eng.repo+"/"), p.Line)
	}
	if vc.contract != nil {
		o.Props = vc.contract.Props
	}
	vc.obls = append(vc.obls, o)
	// after the check, the goal is assumed on this path
	vc.assume(st, goal)
	return o
}

// cover: a reachability check. Expected answer sat (or unknown); unsat means the
// assumptions made so far are contradictory on this path and everything proved after it
// would be vacuous.
func (vc *VC) coverCall(beforeUpto int, beforeReach Term, st *State, name string, pos token.Pos) {
	vc.cover(st, name, pos)
	o := vc.obls[len(vc.obls)-1]
	o.BeforeUpto = beforeUpto
	o.BeforeReach = beforeReach
}

func (vc *VC) cover(st *State, name string, pos token.Pos) {
	full := shortPkg(vc.root.Pkg.Pkg.Path()) + "." + funcKey(vc.root) + "#cover:" + name
	vc.oblNames[full]++
	if n := vc.oblNames[full]; n > 1 {
		full = fmt.Sprintf("%s#%d", full, n)
	}
	o := &Obligation{Name: full, Kind: "vacuity", Func: vc.rootKey, Goal: "false", Reach: st.reach, Upto: len(vc.cmds), vc: vc}
	if pos.IsValid() {
		p := vc.eng.fset.Position(pos)
		o.Pos = fmt.Sprintf("%s:%d", strings.TrimPrefix(p.Filename, vc.eng.repo+"/"), p.Line)
	}
	if vc.contract != nil {
		o.Props = vc.contract.Props
	}
	vc.obls = append(vc.obls, o)
}

func (vc *VC) script(o *Obligation, model bool) string {
	var sb strings.Builder
	if model {
		sb.WriteString("(set-option :produce-models true)\n")
	}
	sb.WriteString("(set-logic ALL)\n")
	var body strings.Builder
	for _, c := range vc.decls {
		body.WriteString(c)
		body.WriteString("\n")
	}
	for _, c := range vc.cmds[:o.Upto] {
		body.WriteString(c)
		body.WriteString("\n")
	}
	for _, c := range o.Extra {
		body.WriteString(c)
		body.WriteString("\n")
	}
	body.WriteString("(assert " + sAnd(o.Reach, sNot(o.Goal)) + ")\n(check-sat)\n")
	bs := body.String()
	for _, s := range vc.eng.cs.specsFor(bs) {
		sb.WriteString(s)
		sb.WriteString("\n")
	}
	sb.WriteString(bs)
	if model {
		sb.WriteString("(get-model)\n")
	}
	return sb.String()
}

// ---------------------------------------------------------------------
// State

type State struct {
	reach     Term
	heap      map[string]Term
	epoch     int             // 0 = entry; >0 = id of the last total havoc
	gepoch    int             // same for ghost state (modifies ghost.*)
	dirty     map[string]bool // families assigned on the way here (not merely renamed by a havoc/merge)
	deferOn   map[*ssa.Defer]Term
	panicking bool  // executing on the exceptional path
	panicVal  Value // value being panicked with
	recovered Term  // Bool: a deferred call has recovered the panic (exceptional path only)
}

func (st *State) clone() *State {
	n := &State{reach: st.reach, heap: make(map[string]Term, len(st.heap)), epoch: st.epoch, gepoch: st.gepoch,
		deferOn: make(map[*ssa.Defer]Term, len(st.deferOn)), panicking: st.panicking, panicVal: st.panicVal, recovered: st.recovered}
	for k, v := range st.heap {
		n.heap[k] = v
	}
	if st.dirty != nil {
		n.dirty = make(map[string]bool, len(st.dirty))
		for k := range st.dirty {
			n.dirty[k] = true
		}
	}
	for k, v := range st.deferOn {
		n.deferOn[k] = v
	}
	return n
}

func (vc *VC) famName(key string, epoch int) string {
	if epoch == 0 {
		return sym(key + "#0")
	}
	return sym(fmt.Sprintf("%s@E%d", key, epoch))
}

// get returns the current term of heap family key (declaring the pre-state or epoch version on demand).
func (vc *VC) get(st *State, key, sort string) Term {
	if t, ok := st.heap[key]; ok {
		return t
	}
	if s, ok := vc.famSort[key]; ok && s != sort {
		vc.errs = append(vc.errs, fmt.Sprintf("heap family %s used at sorts %s and %s", key, s, sort))
	}
	vc.famSort[key] = sort
	ep := st.epoch
	if strings.HasPrefix(key, "S.") || strings.HasPrefix(key, "GI.") || key == allocKey {
		ep = 0 // never havocked by unknown code
	} else if strings.HasPrefix(key, "ghost.") {
		// ghost state: untouched by unknown code, arbitrary after a call that modifies ghost.*
		if st.gepoch == 0 {
			ep = 0
		} else {
			n := sym(fmt.Sprintf("%s@G%d", key, st.gepoch))
			vc.declare(n, sort)
			return n
		}
	}
	n := vc.famName(key, ep)
	vc.declare(n, sort)
	return n
}

// havocAllGhost: a callee whose frame is "ghost.*" ran: every ghost family is arbitrary afterwards
// (the set of allocated references only grows).
func (vc *VC) havocAllGhost(st *State) {
	vc.epochN++
	st.gepoch = vc.epochN
	for k := range st.heap {
		if strings.HasPrefix(k, "ghost.") && k != allocKey {
			delete(st.heap, k)
		}
	}
}

func (st *State) markDirty(key string) {
	if st.dirty == nil {
		st.dirty = map[string]bool{}
	}
	st.dirty[key] = true
}

func (vc *VC) set(st *State, key, sort string, t Term) {
	vc.famSort[key] = sort
	st.markDirty(key)
	if len(t) > 200 {
		n := vc.fresh(key, sort)
		vc.emit("(assert (= " + n + " " + t + "))")
		t = n
	}
	st.heap[key] = t
}

// havocFam replaces a family by a fresh version.
func (vc *VC) havocFam(st *State, key string) Term {
	sort := vc.famSort[key]
	if sort == "" {
		return ""
	}
	old := vc.get(st, key, sort)
	n := vc.fresh(key, sort)
	st.heap[key] = n
	st.markDirty(key)
	vc.preserveLocals(st, key, sort, old, n)
	return n
}

// havocFamRaw: a fresh version with no preservation at all (loop cuts: the body assigned
// something in this family and we do not know where).
func (vc *VC) havocFamRaw(st *State, key string) Term {
	sort := vc.famSort[key]
	if sort == "" {
		return ""
	}
	n := vc.fresh(key, sort)
	st.heap[key] = n
	st.markDirty(key)
	return n
}

// non-escaped fresh objects keep their contents across havoc of a family
func (vc *VC) preserveLocals(st *State, key, sort string, old, neu Term) {
	if !strings.HasPrefix(sort, "(Array Int") {
		return
	}
	for _, a := range vc.allocs {
		if a.escaped {
			continue
		}
		if !vc.allocTouches(a, key) {
			continue
		}
		vc.emit("(assert (= " + sSel(neu, a.ref) + " " + sSel(old, a.ref) + "))")
	}
}

func (vc *VC) allocTouches(a *allocInfo, key string) bool {
	t := a.typ
	if s, ok := isStruct(t); ok {
		_ = s
		return strings.HasPrefix(key, "H."+typeKey(t)+".")
	}
	if ar, ok := isArray(t); ok {
		return strings.HasPrefix(key, "M."+typeKey(ar.Elem()))
	}
	if sl, ok := t.Underlying().(*types.Slice); ok && a.typ == t {
		_ = sl
	}
	return strings.HasPrefix(key, "C."+typeKey(t)) || strings.HasPrefix(key, "M."+typeKey(t))
}

// havocAll: unknown code ran. Everything but ghost state, immutable memory and
// non-escaped fresh objects is unknown afterwards.
func (vc *VC) havocAll(st *State) {
	vc.epochN++
	ep := vc.epochN
	keys := make([]string, 0, len(vc.famSort))
	for k := range vc.famSort {
		keys = append(keys, k)
	}
	sort.Strings(keys)
	oldHeap := st.heap
	oldEpoch := st.epoch
	st.heap = map[string]Term{}
	st.epoch = ep
	for _, k := range keys {
		if k == allocKey {
			// unknown code may allocate: the set of allocated references can only grow
			var old Term
			if t, ok := oldHeap[k]; ok {
				old = t
			} else {
				old = vc.famName(k, 0)
				vc.declare(old, allocSort)
			}
			neu := vc.fresh(allocKey, allocSort)
			vc.nfresh++
			q := sym(fmt.Sprintf("al!q%d", vc.nfresh))
			vc.emit("(assert (forall ((" + q + " Int)) (=> (select " + old + " " + q + ") (select " + neu + " " + q + "))))")
			st.heap[k] = neu
			st.markDirty(k)
			continue
		}
		if strings.HasPrefix(k, "ghost.") || strings.HasPrefix(k, "S.") || strings.HasPrefix(k, "GI.") {
			if t, ok := oldHeap[k]; ok {
				st.heap[k] = t
			}
			continue
		}
		sort := vc.famSort[k]
		// old version
		var old Term
		if t, ok := oldHeap[k]; ok {
			old = t
		} else {
			old = vc.famName(k, oldEpoch)
			vc.declare(old, sort)
		}
		neu := vc.famName(k, ep)
		vc.declare(neu, sort)
		vc.preserveLocals(st, k, sort, old, neu)
		for _, sh := range vc.stable {
			if strings.HasPrefix(k, sh.Key) && (len(k) == len(sh.Key) || k[len(sh.Key)] == '.' || k[len(sh.Key)] == '[') {
				switch sh.Kind {
				case ShField, ShCell:
					vc.emit("(assert (= " + sSel(neu, sh.Base) + " " + sSel(old, sh.Base) + "))")
				case ShGlobal:
					vc.emit("(assert (= " + neu + " " + old + "))")
				}
			}
		}
	}
}

// merge states at a join. conds[i] is the edge condition of states[i].
func (vc *VC) merge(states []*State) *State {
	if len(states) == 1 {
		return states[0]
	}
	out := &State{heap: map[string]Term{}, deferOn: map[*ssa.Defer]Term{}}
	for _, s := range states {
		for k := range s.dirty {
			out.markDirty(k)
		}
	}
	var rs []Term
	for _, s := range states {
		rs = append(rs, s.reach)
	}
	r := sOr(rs...)
	if len(r) > 120 {
		n := vc.fresh("reach", "Bool")
		vc.emit("(assert (= " + n + " " + r + "))")
		if vc.reachDef == nil {
			vc.reachDef = map[Term]Term{}
		}
		vc.reachDef[n] = r
		r = n
	}
	out.reach = r
	// epoch: if they differ, make a new epoch whose families are ite-merged lazily: simplest is to
	// materialise all known families.
	sameEpoch := true
	for _, s := range states[1:] {
		if s.epoch != states[0].epoch {
			sameEpoch = false
		}
	}
	sameG := true
	for _, s := range states[1:] {
		if s.gepoch != states[0].gepoch {
			sameG = false
		}
	}
	if sameG {
		out.gepoch = states[0].gepoch
	} else {
		vc.epochN++
		out.gepoch = vc.epochN
	}
	keys := map[string]bool{}
	if !sameG {
		for k := range vc.famSort {
			if strings.HasPrefix(k, "ghost.") {
				keys[k] = true
			}
		}
	}
	if sameEpoch {
		out.epoch = states[0].epoch
		for _, s := range states {
			for k := range s.heap {
				keys[k] = true
			}
		}
	} else {
		vc.epochN++
		out.epoch = vc.epochN
		for k := range vc.famSort {
			keys[k] = true
		}
	}
	ks := make([]string, 0, len(keys))
	for k := range keys {
		ks = append(ks, k)
	}
	sort.Strings(ks)
	for _, k := range ks {
		srt := vc.famSort[k]
		vals := make([]Term, len(states))
		same := true
		for i, s := range states {
			vals[i] = vc.get(s, k, srt)
			if vals[i] != vals[0] {
				same = false
			}
		}
		if same {
			if t, ok := states[0].heap[k]; ok || !sameEpoch || !sameG {
				_ = t
				out.heap[k] = vals[0]
			}
			continue
		}
		t := vals[len(vals)-1]
		for i := len(vals) - 2; i >= 0; i-- {
			t = sIte(states[i].reach, vals[i], t)
		}
		n := vc.fresh(k, srt)
		vc.emit("(assert (= " + n + " " + t + "))")
		out.heap[k] = n
	}
	// defers
	dk := map[*ssa.Defer]bool{}
	for _, s := range states {
		for d := range s.deferOn {
			dk[d] = true
		}
	}
	for d := range dk {
		var t Term = "false"
		for i := len(states) - 1; i >= 0; i-- {
			v, ok := states[i].deferOn[d]
			if !ok {
				v = "false"
			}
			if i == len(states)-1 {
				t = v
			} else {
				t = sIte(states[i].reach, v, t)
			}
		}
		out.deferOn[d] = t
	}
	out.panicking = states[0].panicking
	out.panicVal = states[0].panicVal
	if out.panicking {
		var t Term
		for i := len(states) - 1; i >= 0; i-- {
			v := states[i].recovered
			if v == "" {
				v = "false"
			}
			if i == len(states)-1 {
				t = v
			} else {
				t = sIte(states[i].reach, v, t)
			}
		}
		out.recovered = t
	}
	return out
}

// ---------------------------------------------------------------------
// type facts

func (vc *VC) typeFacts(v Value, t types.Type) Term {
	cs := comps(t)
	var fs []Term
	i := 0
	var walk func(t types.Type)
	walk = func(t types.Type) {
		switch u := t.Underlying().(type) {
		case *types.Basic:
			if lo, hi, ok := intRange(t); ok {
				fs = append(fs, "(<= "+sBigStr(lo)+" "+v.C[i]+")", "(<= "+v.C[i]+" "+sBigStr(hi)+")")
				i++
				return
			}
			if u.Info()&types.IsString != 0 {
				fs = append(fs, "(<= 0 "+v.C[i+1]+")", "(<= 0 "+v.C[i+2]+")")
				i += 3
				return
			}
			i += len(comps(t))
		case *types.Slice:
			fs = append(fs, "(<= 0 "+v.C[i+1]+")", "(<= 0 "+v.C[i+2]+")", "(<= "+v.C[i+2]+" "+v.C[i+3]+")",
				sImp(sEq(v.C[i], "0"), sEq(v.C[i+3], "0")))
			i += 4
		case *types.Interface:
			fs = append(fs, "(<= 0 "+v.C[i]+")", sImp(sEq(v.C[i], "0"), sEq(v.C[i+1], "0")))
			i += 2
		case *types.Struct:
			for k := 0; k < u.NumFields(); k++ {
				walk(u.Field(k).Type())
			}
		case *types.Tuple:
			for k := 0; k < u.Len(); k++ {
				walk(u.At(k).Type())
			}
		default:
			i += len(comps(t))
		}
	}
	walk(t)
	_ = cs
	return sAnd(fs...)
}

func (vc *VC) freshValue(prefix string, t types.Type, st *State) Value {
	cs := comps(t)
	v := Value{C: make([]Term, len(cs))}
	for i, c := range cs {
		v.C[i] = vc.fresh(prefix+c.Suffix, c.Sort)
	}
	if f := vc.typeFacts(v, t); f != "true" {
		vc.assumeAlways(f)
	}
	return v
}

// string literal -> string value with known length and identity
func (vc *VC) strLit(s string) Value {
	if s == "" {
		return Value{C: []Term{"0", "0", "0"}}
	}
	id, ok := vc.strLits[s]
	if !ok {
		id = strconv.Itoa(1000000 + len(vc.strLits))
		vc.strLits[s] = id
		// contents of short literals are known
		if len(s) <= 32 {
			arr := vc.get(&State{heap: map[string]Term{}}, "S.byte", "(Array Int (Array Int Int))")
			for i := 0; i < len(s); i++ {
				vc.decls = append(vc.decls, "(assert "+sEq(sSel(sSel(arr, id), sInt(int64(i))), sInt(int64(s[i])))+")")
			}
		}
		vc.declareFun("str_id", []string{"Int", "Int", "Int"}, "Int")
		vc.decls = append(vc.decls, "(assert "+sEq(sApp("str_id", id, "0", sInt(int64(len(s)))), id)+")")
	}
	return Value{C: []Term{id, "0", sInt(int64(len(s)))}}
}

func (vc *VC) strId(v Value) Term {
	vc.declareFun("str_id", []string{"Int", "Int", "Int"}, "Int")
	if v.C[2] == "0" {
		return "0"
	}
	if _, ok := isSmallConst(v.C[2]); ok {
		return sApp("str_id", v.C[0], v.C[1], v.C[2])
	}
	return sIte(sEq(v.C[2], "0"), "0", sApp("str_id", v.C[0], v.C[1], v.C[2]))
}
