package main

// Flattening of Go types into SMT components.

import (
	"fmt"
	"go/types"
	"strings"
)

type Comp struct {
	Suffix string // "" for scalars; ".arr", ".len", ".f.typ" ...
	Sort   string // SMT sort
	Typ    types.Type
}

// Value is a symbolic Go value: one SMT term per component of its type.
type Value struct {
	C  []Term
	Sh *Shape // for pointers: where the pointee lives (nil = derive from type)
}

const (
	ShCell   = iota // C.<T>[Base]
	ShField         // H.<S>.<f>[Base]
	ShElem          // M.<T>[Base][Idx]
	ShGlobal        // G.<name>
)

type Shape struct {
	Kind int
	Key  string // family key without component suffix
	Base Term
	Idx  Term
	Typ  types.Type // pointee type
}

func typeKey(t types.Type) string {
	s := types.TypeString(t, func(p *types.Package) string { return shortPkg(p.Path()) })
	s = strings.ReplaceAll(s, " ", "")
	if len(s) > 60 {
		s = s[:40] + "~" + scriptHash(s)[:8]
	}
	return s
}

func shortPkg(path string) string {
	const mod = "github.com/hprose/hprose-golang/v3/"
	path = strings.TrimPrefix(path, mod)
	return path
}

func isStruct(t types.Type) (*types.Struct, bool) {
	s, ok := t.Underlying().(*types.Struct)
	return s, ok
}

func isArray(t types.Type) (*types.Array, bool) {
	a, ok := t.Underlying().(*types.Array)
	return a, ok
}

var compsCache = map[types.Type][]Comp{}

func comps(t types.Type) []Comp {
	if c, ok := compsCache[t]; ok {
		return c
	}
	c := comps1(t)
	compsCache[t] = c
	return c
}

func comps1(t types.Type) []Comp {
	switch u := t.Underlying().(type) {
	case *types.Basic:
		switch {
		case u.Kind() == types.UntypedNil:
			return []Comp{{"", "Int", t}}
		case u.Info()&types.IsBoolean != 0:
			return []Comp{{"", "Bool", t}}
		case u.Info()&types.IsInteger != 0, u.Kind() == types.UnsafePointer:
			return []Comp{{"", "Int", t}}
		case u.Info()&types.IsFloat != 0:
			return []Comp{{"", "Real", t}}
		case u.Info()&types.IsComplex != 0:
			return []Comp{{".re", "Real", t}, {".im", "Real", t}}
		case u.Info()&types.IsString != 0:
			return []Comp{{".arr", "Int", t}, {".off", "Int", t}, {".len", "Int", t}}
		}
		return []Comp{{"", "Int", t}}
	case *types.Pointer, *types.Chan, *types.Map, *types.Signature:
		return []Comp{{"", "Int", t}}
	case *types.Slice:
		return []Comp{{".arr", "Int", t}, {".off", "Int", t}, {".len", "Int", t}, {".cap", "Int", t}}
	case *types.Interface:
		return []Comp{{".typ", "Int", t}, {".val", "Int", t}}
	case *types.Struct:
		var out []Comp
		for i := 0; i < u.NumFields(); i++ {
			f := u.Field(i)
			for _, c := range comps(f.Type()) {
				out = append(out, Comp{"." + f.Name() + c.Suffix, c.Sort, c.Typ})
			}
		}
		return out
	case *types.Array:
		var out []Comp
		for _, c := range comps(u.Elem()) {
			out = append(out, Comp{"[]" + c.Suffix, "(Array Int " + c.Sort + ")", c.Typ})
		}
		return out
	case *types.Tuple:
		var out []Comp
		for i := 0; i < u.Len(); i++ {
			for _, c := range comps(u.At(i).Type()) {
				out = append(out, Comp{fmt.Sprintf(".r%d", i) + c.Suffix, c.Sort, c.Typ})
			}
		}
		return out
	case *types.TypeParam:
		return []Comp{{"", "Int", t}}
	}
	return []Comp{{"", "Int", t}}
}

// fieldRange returns the component index range of field i inside struct s.
func fieldRange(s *types.Struct, i int) (lo, hi int) {
	for k := 0; k < i; k++ {
		lo += len(comps(s.Field(k).Type()))
	}
	return lo, lo + len(comps(s.Field(i).Type()))
}

func tupleRange(tp *types.Tuple, i int) (lo, hi int) {
	for k := 0; k < i; k++ {
		lo += len(comps(tp.At(k).Type()))
	}
	return lo, lo + len(comps(tp.At(i).Type()))
}

// integer range of a sized type: lo, hi as decimal strings; ok=false if not an integer type
func intRange(t types.Type) (lo, hi string, ok bool) {
	b, isb := t.Underlying().(*types.Basic)
	if !isb || b.Info()&types.IsInteger == 0 {
		return
	}
	switch b.Kind() {
	case types.Int8:
		return "-128", "127", true
	case types.Int16:
		return "-32768", "32767", true
	case types.Int32:
		return "-2147483648", "2147483647", true
	case types.Int, types.Int64:
		return "-9223372036854775808", "9223372036854775807", true
	case types.Uint8:
		return "0", "255", true
	case types.Uint16:
		return "0", "65535", true
	case types.Uint32:
		return "0", "4294967295", true
	case types.Uint, types.Uint64, types.Uintptr:
		return "0", "18446744073709551615", true
	case types.UntypedInt, types.UntypedRune:
		return "", "", false
	}
	return
}

func intBits(t types.Type) (bits int, signed bool, ok bool) {
	b, isb := t.Underlying().(*types.Basic)
	if !isb || b.Info()&types.IsInteger == 0 {
		return
	}
	switch b.Kind() {
	case types.Int8:
		return 8, true, true
	case types.Int16:
		return 16, true, true
	case types.Int32:
		return 32, true, true
	case types.Int, types.Int64:
		return 64, true, true
	case types.Uint8:
		return 8, false, true
	case types.Uint16:
		return 16, false, true
	case types.Uint32:
		return 32, false, true
	case types.Uint, types.Uint64, types.Uintptr:
		return 64, false, true
	}
	return
}

var pow2 = func() []string {
	out := make([]string, 66)
	// decimal strings of 2^k for k in 0..65
	v := []int{1}
	for k := 0; k <= 65; k++ {
		var sb strings.Builder
		for i := len(v) - 1; i >= 0; i-- {
			sb.WriteByte(byte('0' + v[i]))
		}
		out[k] = sb.String()
		carry := 0
		for i := range v {
			d := v[i]*2 + carry
			v[i] = d % 10
			carry = d / 10
		}
		if carry > 0 {
			v = append(v, carry)
		}
	}
	return out
}()

func zeroTerm(sort string) Term {
	switch sort {
	case "Int":
		return "0"
	case "Bool":
		return "false"
	case "Real":
		return "0.0"
	}
	if strings.HasPrefix(sort, "(Array Int ") {
		inner := sort[len("(Array Int ") : len(sort)-1]
		return "((as const " + sort + ") " + zeroTerm(inner) + ")"
	}
	return "0"
}

func zeroValue(t types.Type) Value {
	cs := comps(t)
	v := Value{C: make([]Term, len(cs))}
	for i, c := range cs {
		v.C[i] = zeroTerm(c.Sort)
	}
	return v
}
