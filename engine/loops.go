package main

// Loop cutting with invariants. The set of heap families a loop may write is
// discovered by a dry run of the body (its commands and obligations are
// discarded), so callee contracts, inlined helpers and stores are all treated
// uniformly.

import (
	"fmt"
	"sort"

	"golang.org/x/tools/go/ssa"
)

func (fr *Frame) regionOrder(li *loopInfo) []*ssa.BasicBlock {
	all := rpo(fr.fn, fr.back)
	var out []*ssa.BasicBlock
	for _, b := range all {
		if li.blocks[b] {
			out = append(out, b)
		}
	}
	return out
}

func (fr *Frame) dryRecord(li *loopInfo, es *State) {
	rc := fr.rc
	hdr := li.hdrState
	if es.epoch != hdr.epoch {
		rc.dryAll = true
	}
	if es.gepoch != hdr.gepoch {
		rc.dryAllGhost = true
	}
	for k := range es.dirty {
		rc.dryMods[k] = true
	}
	_ = hdr
}

func (fr *Frame) loopName(li *loopInfo) string {
	if fr.parent != nil {
		return fmt.Sprintf("%s.loop%d", fr.fn.Name(), li.ordinal)
	}
	return fmt.Sprintf("loop%d", li.ordinal)
}

func clauseLabel(cl *Clause) string {
	if cl.Label != "" {
		return cl.Label
	}
	return "h" + scriptHash(cl.Text)[:6]
}

func (fr *Frame) cutLoop(li *loopInfo, st *State, preds []*ssa.BasicBlock, pstates []*State) error {
	vc := fr.vc
	b := li.header
	var phis []*ssa.Phi
	for _, ins := range b.Instrs {
		phi, ok := ins.(*ssa.Phi)
		if !ok {
			break
		}
		phis = append(phis, phi)
	}
	// entry values of the phis
	entryVals := map[*ssa.Phi]Value{}
	for _, phi := range phis {
		entryVals[phi] = fr.phiValue(phi, b, preds, pstates)
	}
	if li.spec != nil && li.spec.Unroll > 0 {
		return fmt.Errorf("%s: loop unrolling not supported", fr.fn)
	}
	savedLoop := fr.curLoop
	fr.curLoop = li
	defer func() { fr.curLoop = savedLoop }()
	// 1. invariants hold on entry
	if li.spec != nil {
		for _, inv := range li.spec.Invariants {
			for _, phi := range phis {
				fr.vals[phi] = entryVals[phi]
			}
			t, sks, err := fr.evalGoal(inv, st, fr.entry, nil)
			if err != nil {
				return fmt.Errorf("%s:%d: %v", inv.File, inv.Line, err)
			}
			if fr.dry == 0 {
				vc.obligeHinted(st, "inv_entry", fr.loopName(li)+":"+clauseLabel(inv), t, sks, li.pos, inv.Text)
			} else {
				vc.oblige(st, "inv_entry", fr.loopName(li)+":"+clauseLabel(inv), t, li.pos, inv.Text)
			}
		}
	}
	// 2. dry run to find what the body writes
	{
		save := vc.snapshot()
		fsave := fr.snapshot()
		for _, phi := range phis {
			fr.vals[phi] = vc.freshValue(fr.vname(phi)+".dry", phi.Type(), nil)
		}
		hs := st.clone()
		hs.dirty = nil // collect what the body assigns
		li.hdrState = hs.clone()
		rc := &runCtx{back: fr.back, in: map[*ssa.BasicBlock][]*State{}, edgeSt: map[[2]*ssa.BasicBlock]*State{},
			region: li.blocks, dryHeader: b, dryMods: map[string]bool{}}
		rc.in[b] = []*State{hs}
		fr.dry++
		err := fr.runBlocks(fr.regionOrder(li), rc)
		fr.dry--
		vc.restore(save)
		fr.restore(fsave)
		if err != nil {
			return err
		}
		// 3. havoc
		if rc.dryAll {
			// unknown code runs in the body: ordinary memory is arbitrary at the cut ...
			vc.havocAll(st)
		}
		if rc.dryAllGhost {
			vc.havocAllGhost(st)
		}
		{
			// ... and so is every family the body assigns (ghost state included, which unknown
			// code cannot touch but the body's own calls can)
			keys := make([]string, 0, len(rc.dryMods))
			for k := range rc.dryMods {
				keys = append(keys, k)
			}
			sort.Strings(keys)
			li.modKeys = keys
			// the frame holds on loop entry ...
			fr.loopFrameCheck(st, keys, "loop_frame_entry", fr.loopName(li), li.pos)
			for _, k := range keys {
				if k == allocKey {
					old := vc.get(st, allocKey, allocSort)
					neu := vc.fresh(allocKey, allocSort)
					vc.nfresh++
					q := sym(fmt.Sprintf("al!q%d", vc.nfresh))
					vc.emit("(assert (forall ((" + q + " Int)) (=> (select " + old + " " + q + ") (select " + neu + " " + q + "))))")
					st.heap[k] = neu
					st.markDirty(k)
					continue
				}
				vc.havocFamRaw(st, k)
			}
			// ... and is assumed for the arbitrary iteration
			fr.loopFrameAssume(st, keys)
		}
	}
	for _, phi := range phis {
		v := vc.freshValue(fr.vname(phi), phi.Type(), nil)
		vc.assume(st, vc.allocFacts(st, v, phi.Type()))
		if phi.Comment == "rangeindex" {
			// the hidden index of a range loop starts at -1 and is only ever incremented
			// (by construction of the SSA form: its only other edge value is itself + 1)
			vc.assume(st, "(>= "+v.C[0]+" (- 1))")
		}
		fr.vals[phi] = v
	}
	// 4. assume invariants
	if li.spec != nil {
		var inst []Term
		for _, phi := range phis {
			if isInteger(phi.Type()) {
				v := fr.vals[phi].C[0]
				inst = append(inst, v, iAdd(v, "1"), iSub(v, "1"))
			}
		}
		for _, inv := range li.spec.Invariants {
			t, err := fr.evalClauseInst(inv, st, fr.entry, nil, inst)
			if err != nil {
				return fmt.Errorf("%s:%d: %v", inv.File, inv.Line, err)
			}
			vc.assume(st, t)
		}
	}
	li.hdrState = st.clone()
	li.phiVals = map[*ssa.Phi]Value{}
	for _, phi := range phis {
		li.phiVals[phi] = fr.vals[phi]
	}
	if li.spec != nil && fr.dry == 0 {
		hdr := li.hdrState
		hvals := li.phiVals
		invs := li.spec.Invariants
		loop := li
		vc.univ = append(vc.univ, func(inst []Term) {
			savedVals := map[*ssa.Phi]Value{}
			for phi, v := range hvals {
				savedVals[phi] = fr.vals[phi]
				fr.vals[phi] = v
			}
			savedLoop := fr.curLoop
			fr.curLoop = loop
			for _, inv2 := range invs {
				if h, err := fr.evalClauseInst(inv2, hdr, fr.entry, nil, inst); err == nil {
					vc.assume(hdr, h)
				}
			}
			fr.curLoop = savedLoop
			for phi, v := range savedVals {
				fr.vals[phi] = v
			}
		})
	}
	if li.spec != nil && li.spec.Decreases != nil {
		v, _, err := fr.evalExprText(li.spec.Decreases.Text, st, fr.entry, nil)
		if err != nil {
			return fmt.Errorf("%s:%d: %v", li.spec.Decreases.File, li.spec.Decreases.Line, err)
		}
		li.measure = vc.define("measure", "Int", v.C[0])
	}
	return nil
}

func (fr *Frame) backEdge(li *loopInfo, from *ssa.BasicBlock, es *State) {
	vc := fr.vc
	b := li.header
	if li.spec == nil {
		fr.loopFrameCheck(es, li.modKeys, "loop_frame_keep", fr.loopName(li), li.pos)
		return
	}
	idx := -1
	for i, p := range b.Preds {
		if p == from {
			idx = i
		}
	}
	savedLoop := fr.curLoop
	fr.curLoop = li
	defer func() { fr.curLoop = savedLoop }()
	saved := map[*ssa.Phi]Value{}
	for _, ins := range b.Instrs {
		phi, ok := ins.(*ssa.Phi)
		if !ok {
			break
		}
		saved[phi] = fr.vals[phi]
	}
	// bind phis to the values flowing along this back edge (compute all before assigning)
	next := map[*ssa.Phi]Value{}
	for phi := range saved {
		next[phi] = fr.val(phi.Edges[idx])
	}
	for phi, v := range next {
		fr.vals[phi] = v
	}
	fr.loopFrameCheck(es, li.modKeys, "loop_frame_keep", fr.loopName(li), li.pos)
	for _, inv := range li.spec.Invariants {
		t, sks, err := fr.evalGoal(inv, es, fr.entry, nil)
		if err != nil {
			vc.errs = append(vc.errs, fmt.Sprintf("%s:%d: %v", inv.File, inv.Line, err))
			continue
		}
		if fr.dry == 0 {
			vc.obligeHinted(es, "inv_keep", fr.loopName(li)+":"+clauseLabel(inv), t, sks, li.pos, inv.Text)
		} else {
			vc.oblige(es, "inv_keep", fr.loopName(li)+":"+clauseLabel(inv), t, li.pos, inv.Text)
		}
	}
	// per-iteration postconditions: old() is the state at the start of this iteration
	for _, ie := range li.spec.IterEns {
		fr.evalPoint = from
		t, sks, err := fr.evalGoal(ie, es, li.hdrState, nil)
		fr.evalPoint = nil
		if err != nil {
			vc.errs = append(vc.errs, fmt.Sprintf("%s:%d: %v", ie.File, ie.Line, err))
			continue
		}
		if fr.dry == 0 {
			vc.obligeHinted(es, "iter_post", fr.loopName(li)+":"+clauseLabel(ie), t, sks, li.pos, ie.Text)
		}
	}
	if li.spec.Decreases != nil {
		v, _, err := fr.evalExprText(li.spec.Decreases.Text, es, fr.entry, nil)
		if err != nil {
			vc.errs = append(vc.errs, fmt.Sprintf("%s:%d: %v", li.spec.Decreases.File, li.spec.Decreases.Line, err))
		} else {
			goal := sAnd("(<= 0 "+li.measure+")", "(< "+v.C[0]+" "+li.measure+")")
			vc.oblige(es, "decreases", fr.loopName(li), goal, li.pos, li.spec.Decreases.Text)
		}
	}
	for phi, v := range saved {
		fr.vals[phi] = v
	}
}

// ---------------------------------------------------------------------
// snapshots for the dry run

type vcSnap struct {
	ncmds, nobls, nallocs int
	oblNames              map[string]int
	notes                 map[string]int
	nerrs                 int
}

func (vc *VC) snapshot() *vcSnap {
	s := &vcSnap{ncmds: len(vc.cmds), nobls: len(vc.obls), nallocs: len(vc.allocs), oblNames: map[string]int{}, notes: map[string]int{}, nerrs: len(vc.errs)}
	for k, v := range vc.oblNames {
		s.oblNames[k] = v
	}
	for k, v := range vc.notes {
		s.notes[k] = v
	}
	return s
}

func (vc *VC) restore(s *vcSnap) {
	vc.cmds = vc.cmds[:s.ncmds]
	vc.obls = vc.obls[:s.nobls]
	vc.allocs = vc.allocs[:s.nallocs]
	vc.oblNames = s.oblNames
	vc.notes = s.notes
	vc.errs = vc.errs[:s.nerrs]
}

type frSnap struct {
	nexits, npanics, ndefers int
}

func (fr *Frame) snapshot() *frSnap {
	return &frSnap{len(fr.exits), len(fr.panics), len(fr.defers)}
}

func (fr *Frame) restore(s *frSnap) {
	fr.exits = fr.exits[:s.nexits]
	fr.panics = fr.panics[:s.npanics]
	fr.defers = fr.defers[:s.ndefers]
}
