package main

import (
	"fmt"
	"go/ast"
	"go/token"
	"go/types"
	"os"
	"path/filepath"
	"sort"
	"strings"

	"golang.org/x/tools/go/packages"
	"golang.org/x/tools/go/ssa"
	"golang.org/x/tools/go/ssa/ssautil"
)

const modPath = "github.com/hprose/hprose-golang/v3"

type Engine struct {
	repo    string
	verif   string
	fset    *token.FileSet
	prog    *ssa.Program
	pkgs    map[string]*packages.Package
	spkgs   map[string]*ssa.Package
	cs      *ContractSet
	funcs   map[string]*ssa.Function // pkg::key -> function (module packages only)
	fnKey   map[*ssa.Function]string
	mutGlob map[*ssa.Global]bool
	srcs    map[string][]byte
	typeIds map[string]int
	typeOf  []types.Type
	loadErr []string
	refMaps []types.Type // map types (int/string keys) of the module whose elements are single references
}

// noteRefMap records map types whose element is one reference (pointer, channel, map): for
// these a fresh object is known to be no element of any map (newAlloc).
func (e *Engine) noteRefMap(t types.Type) {
	m, ok := t.Underlying().(*types.Map)
	if !ok {
		return
	}
	switch m.Elem().Underlying().(type) {
	case *types.Pointer, *types.Chan, *types.Map:
	default:
		return
	}
	for _, o := range e.refMaps {
		if types.Identical(o, t) {
			return
		}
	}
	e.refMaps = append(e.refMaps, t)
}

func funcKey(fn *ssa.Function) string {
	if fn.Parent() != nil {
		p := fn.Parent()
		return funcKey(p) + strings.TrimPrefix(fn.Name(), p.Name())
	}
	if fn.Signature.Recv() != nil {
		rt := fn.Signature.Recv().Type()
		s := types.TypeString(rt, func(*types.Package) string { return "" })
		return "(" + s + ")." + fn.Name()
	}
	return fn.Name()
}

func loadEngine(repo, verif string, patterns []string) (*Engine, error) {
	e := &Engine{repo: repo, verif: verif, pkgs: map[string]*packages.Package{}, spkgs: map[string]*ssa.Package{},
		funcs: map[string]*ssa.Function{}, fnKey: map[*ssa.Function]string{}, mutGlob: map[*ssa.Global]bool{},
		srcs: map[string][]byte{}, typeIds: map[string]int{}}
	e.fset = token.NewFileSet()
	cfg := &packages.Config{
		Mode: packages.NeedName | packages.NeedFiles | packages.NeedCompiledGoFiles | packages.NeedImports |
			packages.NeedDeps | packages.NeedTypes | packages.NeedSyntax | packages.NeedTypesInfo | packages.NeedTypesSizes | packages.NeedModule,
		Dir:        repo,
		Fset:       e.fset,
		BuildFlags: []string{"-tags=verif"},
		Env:        append(os.Environ(), "GOFLAGS=-mod=mod", "GOPROXY=off", "GOSUMDB=off", "GOTOOLCHAIN=local"),
	}
	pkgs, err := packages.Load(cfg, patterns...)
	if err != nil {
		return nil, err
	}
	nerr := 0
	packages.Visit(pkgs, nil, func(p *packages.Package) {
		for _, er := range p.Errors {
			if strings.HasPrefix(p.PkgPath, modPath) {
				e.loadErr = append(e.loadErr, er.Error())
				nerr++
			}
		}
	})
	if nerr > 0 {
		return nil, fmt.Errorf("package errors: %s", strings.Join(e.loadErr, "; "))
	}
	prog, _ := ssautil.AllPackages(pkgs, ssa.GlobalDebug|ssa.InstantiateGenerics)
	prog.Build()
	e.prog = prog
	packages.Visit(pkgs, nil, func(p *packages.Package) {
		e.pkgs[p.PkgPath] = p
		if sp := prog.Package(p.Types); sp != nil {
			e.spkgs[p.PkgPath] = sp
		}
	})
	// index module functions
	for path, sp := range e.spkgs {
		if !strings.HasPrefix(path, modPath) {
			continue
		}
		for fn := range ssautil.AllFunctions(prog) {
			if fn.Pkg != sp {
				continue
			}
			if fn.Synthetic != "" && fn.Parent() == nil && !strings.HasPrefix(fn.Name(), "init") {
				continue
			}
			k := funcKey(fn)
			e.funcs[path+"::"+k] = fn
			e.fnKey[fn] = k
		}
	}
	// mutable globals: any non-load use outside init
	for fn := range ssautil.AllFunctions(prog) {
		if fn.Pkg == nil || !strings.HasPrefix(fn.Pkg.Pkg.Path(), modPath) {
			continue
		}
		isInit := fn.Name() == "init" || strings.HasPrefix(fn.Name(), "init#")
		for _, b := range fn.Blocks {
			for _, in := range b.Instrs {
				switch x := in.(type) {
				case *ssa.MakeMap:
					e.noteRefMap(x.Type())
				case *ssa.MapUpdate:
					e.noteRefMap(x.Map.Type())
				case *ssa.Lookup:
					e.noteRefMap(x.X.Type())
				}
				for _, op := range in.Operands(nil) {
					g, ok := (*op).(*ssa.Global)
					if !ok {
						continue
					}
					if u, ok := in.(*ssa.UnOp); ok && u.Op == token.MUL {
						continue
					}
					if _, ok := in.(*ssa.DebugRef); ok {
						continue
					}
					if isInit {
						if st, ok := in.(*ssa.Store); ok && st.Addr == g {
							continue
						}
					}
					e.mutGlob[g] = true
				}
			}
		}
	}
	// contracts
	e.cs = newContractSet()
	if err := e.cs.loadSpecDir(filepath.Join(verif, "spec")); err != nil {
		return nil, err
	}
	ext, _ := filepath.Glob(filepath.Join(verif, "contracts", "ext", "*.contracts"))
	sort.Strings(ext)
	for _, f := range ext {
		if err := e.cs.parseFile(f, "", false); err != nil {
			return nil, err
		}
	}
	var paths []string
	for path := range e.pkgs {
		if strings.HasPrefix(path, modPath) {
			paths = append(paths, path)
		}
	}
	sort.Strings(paths)
	for _, path := range paths {
		p := e.pkgs[path]
		for _, f := range p.CompiledGoFiles {
			if filepath.Base(f) == "verif_contracts.go" {
				if err := e.cs.parseFile(f, path, true); err != nil {
					return nil, err
				}
			}
		}
	}
	var fkeys []string
	for k := range e.funcs {
		fkeys = append(fkeys, k)
	}
	sort.Strings(fkeys)
	if err := e.cs.expandTemplates(fkeys); err != nil {
		return nil, err
	}
	return e, nil
}

var ghostTypeCache = map[*GhostDecl]types.Type{}

func (e *Engine) ghostGoType(g *GhostDecl) types.Type {
	if t, ok := ghostTypeCache[g]; ok {
		return t
	}
	p := e.pkgs[g.Pkg]
	if p == nil {
		return nil
	}
	tv, err := types.Eval(e.fset, p.Types, token.NoPos, g.GoType)
	if err != nil {
		return nil
	}
	ghostTypeCache[g] = tv.Type
	return tv.Type
}

func (e *Engine) src(file string) []byte {
	if b, ok := e.srcs[file]; ok {
		return b
	}
	b, _ := os.ReadFile(file)
	e.srcs[file] = b
	return b
}

// text of the AST node spanning pos..end
func (e *Engine) nodeText(n ast.Node) string {
	if n == nil {
		return ""
	}
	p := e.fset.Position(n.Pos())
	q := e.fset.Position(n.End())
	b := e.src(p.Filename)
	if p.Offset < 0 || q.Offset > len(b) || p.Offset > q.Offset {
		return ""
	}
	s := string(b[p.Offset:q.Offset])
	s = strings.Join(strings.Fields(s), " ")
	if len(s) > 80 {
		s = s[:80]
	}
	return s
}

func (e *Engine) fileOf(pos token.Pos) *ast.File {
	if !pos.IsValid() {
		return nil
	}
	tf := e.fset.File(pos)
	if tf == nil {
		return nil
	}
	for _, p := range e.pkgs {
		for _, f := range p.Syntax {
			if e.fset.File(f.Pos()) == tf {
				return f
			}
		}
	}
	return nil
}

func (e *Engine) typeId(t types.Type) int {
	k := types.TypeString(t, nil)
	if id, ok := e.typeIds[k]; ok {
		return id
	}
	id := len(e.typeIds) + 1
	e.typeIds[k] = id
	e.typeOf = append(e.typeOf, t)
	return id
}

func (e *Engine) lookupFunc(pkg, key string) *ssa.Function {
	return e.funcs[pkg+"::"+key]
}

// contractFor returns the contract attached to fn (module function or external).
func (e *Engine) contractFor(fn *ssa.Function) *Contract {
	if fn == nil {
		return nil
	}
	if fn.Origin() != nil {
		fn = fn.Origin()
	}
	var pkgPath string
	if fn.Pkg != nil {
		pkgPath = fn.Pkg.Pkg.Path()
	} else if fn.Signature.Recv() != nil {
		// method of an external type instantiated in wrapper etc.
		if n := namedOf(fn.Signature.Recv().Type()); n != nil && n.Obj().Pkg() != nil {
			pkgPath = n.Obj().Pkg().Path()
		}
	} else if fn.Object() != nil && fn.Object().Pkg() != nil {
		pkgPath = fn.Object().Pkg().Path()
	}
	k := funcKey(fn)
	if c, ok := e.cs.Funcs[pkgPath+"::"+k]; ok {
		return c
	}
	return nil
}

func namedOf(t types.Type) *types.Named {
	if p, ok := t.(*types.Pointer); ok {
		t = p.Elem()
	}
	if a, ok := t.(*types.Alias); ok {
		t = types.Unalias(a)
	}
	n, _ := t.(*types.Named)
	return n
}
