package main

// Contract expressions: Go expression syntax (go/parser) plus  ==>, old(),
// forall/exists, ghost.<name>, spec function calls.

import (
	"fmt"
	"go/ast"
	"go/constant"
	"go/parser"
	"go/token"
	"go/types"
	"strconv"
	"strings"

	"golang.org/x/tools/go/ssa"
)

var tUntypedInt = types.Typ[types.UntypedInt]
var tBool = types.Typ[types.Bool]
var tReal = types.Typ[types.UntypedFloat]

// desugar  a ==> b  into implies(a, b), recursively inside brackets
func desugar(s string) string {
	// a <==> b  (lowest precedence)
	if i := topLevelIndex(s, "<==>"); i >= 0 {
		return "iff(" + desugar(s[:i]) + ", " + desugar(s[i+4:]) + ")"
	}
	// find top-level ==>
	d := 0
	for i := 0; i+2 < len(s); i++ {
		switch s[i] {
		case '(', '[', '{':
			d++
		case ')', ']', '}':
			d--
		case '"':
			j := i + 1
			for j < len(s) && s[j] != '"' {
				if s[j] == '\\' {
					j++
				}
				j++
			}
			i = j
		case '\'':
			j := i + 1
			for j < len(s) && s[j] != '\'' {
				if s[j] == '\\' {
					j++
				}
				j++
			}
			i = j
		case '=':
			if d == 0 && strings.HasPrefix(s[i:], "==>") && (i == 0 || s[i-1] != '<') {
				return "implies(" + desugar(s[:i]) + ", " + desugar(s[i+3:]) + ")"
			}
		}
	}
	if !strings.Contains(s, "==>") {
		return s
	}
	// recurse into bracket groups
	var sb strings.Builder
	i := 0
	for i < len(s) {
		c := s[i]
		if c == '(' || c == '[' {
			// find matching
			d := 0
			j := i
			for ; j < len(s); j++ {
				if s[j] == '(' || s[j] == '[' || s[j] == '{' {
					d++
				} else if s[j] == ')' || s[j] == ']' || s[j] == '}' {
					d--
					if d == 0 {
						break
					}
				}
			}
			inner := s[i+1 : j]
			parts := splitTop(inner, ',')
			for k := range parts {
				parts[k] = desugar(parts[k])
			}
			sb.WriteByte(c)
			sb.WriteString(strings.Join(parts, ","))
			if j < len(s) {
				sb.WriteByte(s[j])
			}
			i = j + 1
			continue
		}
		sb.WriteByte(c)
		i++
	}
	return sb.String()
}

func topLevelIndex(s, op string) int {
	d := 0
	for i := 0; i+len(op) <= len(s); i++ {
		switch s[i] {
		case '(', '[', '{':
			d++
		case ')', ']', '}':
			d--
		case '"':
			j := i + 1
			for j < len(s) && s[j] != '"' {
				if s[j] == '\\' {
					j++
				}
				j++
			}
			i = j
			continue
		}
		if d == 0 && strings.HasPrefix(s[i:], op) {
			return i
		}
	}
	return -1
}

var exprCache = map[string]ast.Expr{}

func parseContractExpr(text string) (ast.Expr, error) {
	if e, ok := exprCache[text]; ok {
		return e, nil
	}
	e, err := parser.ParseExpr(desugar(text))
	if err != nil {
		return nil, fmt.Errorf("parse %q: %v", text, err)
	}
	exprCache[text] = e
	return e, nil
}

type evalCtx struct {
	vc      *VC
	fr      *Frame
	pkg     *types.Package
	lookup  func(name string, cur *State) (bound, bool)
	cur     *State
	old     *State
	now     *State // the real current state (cur is switched to old inside old())
	qvars   map[string]bound
	inst    []Term // assumption context: also state these instances of every outermost forall
	skTop   bool   // goal context: we are at a position where a forall may be skolemised
	skolems []Term // skolem constants introduced
}

// ---------------------------------------------------------------------
// entry points

func (fr *Frame) frameLookup(extra map[string]bound) func(string, *State) (bound, bool) {
	return fr.frameLookupNow(extra, nil)
}

// frameLookupNow: now (if non-nil) is the state in which the function's own address-taken
// locals are read: old(x) of a local means its current value (locals do not exist on entry).
func (fr *Frame) frameLookupNow(extra map[string]bound, nowp **State) func(string, *State) (bound, bool) {
	return func(name string, cur *State) (bound, bool) {
		if extra != nil {
			if b, ok := extra[name]; ok {
				return b, true
			}
		}
		if b, ok := fr.lets[name]; ok {
			return b, true
		}
		for _, p := range fr.fn.Params {
			if p.Name() == name {
				// a parameter that the body reassigns: inside a loop contract the name means the
				// loop-carried current value; old(p) and postconditions mean the entry value
				inOld := nowp != nil && *nowp != nil && cur != *nowp
				if !inOld && fr.curLoop != nil {
					for _, in := range fr.curLoop.header.Instrs {
						phi, ok := in.(*ssa.Phi)
						if !ok {
							break
						}
						if phi.Comment == name {
							if v, have := fr.vals[phi]; have {
								return bound{v, phi.Type()}, true
							}
						}
					}
				}
				return bound{fr.val(p), p.Type()}, true
			}
		}
		for _, p := range fr.fn.FreeVars {
			if p.Name() == name {
				pt := p.Type().(*types.Pointer).Elem()
				return bound{fr.vc.load(cur, fr.val(p), pt), pt}, true
			}
		}
		if a, ok := fr.names["&"+name]; ok {
			if _, have := fr.vals[a]; have {
				pt := a.Type().(*types.Pointer).Elem()
				lst := cur
				if nowp != nil && *nowp != nil {
					lst = *nowp
				}
				return bound{fr.vc.load(lst, fr.val(a), pt), pt}, true
			}
		}
		if v, ok := fr.resolveLocal(name); ok {
			return bound{fr.val(v), v.Type()}, true
		}
		// a loop contract names a variable that no longer exists (renamed local): if exactly one
		// loop-carried variable of this loop is not mentioned by the clause, it is the one meant
		if fr.curLoop != nil && fr.clauseIdents != nil && !isSpecName(fr.vc, name) {
			var free []*ssa.Phi
			for _, in := range fr.curLoop.header.Instrs {
				phi, ok := in.(*ssa.Phi)
				if !ok {
					break
				}
				if phi.Comment != "" && !fr.clauseIdents[phi.Comment] {
					if _, have := fr.vals[phi]; have {
						free = append(free, phi)
					}
				}
			}
			if len(free) == 1 {
				fr.vc.note("loop contract names unknown variable " + name + "; bound to the only unmentioned loop variable " + free[0].Comment)
				return bound{fr.vals[free[0]], free[0].Type()}, true
			}
		}
		return bound{}, false
	}
}

func isSpecName(vc *VC, name string) bool {
	if _, ok := vc.eng.cs.SpecSyms[name]; ok {
		return true
	}
	return false
}

func identsOf(e ast.Expr) map[string]bool {
	m := map[string]bool{}
	ast.Inspect(e, func(n ast.Node) bool {
		if id, ok := n.(*ast.Ident); ok {
			m[id.Name] = true
		}
		return true
	})
	return m
}

// resolveLocal: the SSA value a source-level local variable name denotes at the point of
// evaluation (loop header while a loop contract is evaluated, function exit otherwise): among
// the values the debug information attaches to the name, the one whose definition dominates
// the point and is closest to it.
func (fr *Frame) resolveLocal(name string) (ssa.Value, bool) {
	var cands []ssa.Value
	seen := map[ssa.Value]bool{}
	for _, b := range fr.fn.Blocks {
		for _, in := range b.Instrs {
			switch d := in.(type) {
			case *ssa.DebugRef:
				if id, ok := d.Expr.(*ast.Ident); ok && id.Name == name && !d.IsAddr && !seen[d.X] {
					seen[d.X] = true
					cands = append(cands, d.X)
				}
			case *ssa.Phi:
				if d.Comment == name && !seen[d] {
					seen[d] = true
					cands = append(cands, d)
				}
			}
		}
	}
	if len(cands) == 0 {
		return nil, false
	}
	var points []*ssa.BasicBlock
	if fr.evalPoint != nil {
		points = []*ssa.BasicBlock{fr.evalPoint}
	} else if fr.curLoop != nil {
		points = []*ssa.BasicBlock{fr.curLoop.header}
	} else {
		for _, b := range fr.fn.Blocks {
			if len(b.Instrs) > 0 {
				if _, ok := b.Instrs[len(b.Instrs)-1].(*ssa.Return); ok && b != fr.fn.Recover {
					points = append(points, b)
				}
			}
		}
	}
	blockOf := func(v ssa.Value) *ssa.BasicBlock {
		if in, ok := v.(ssa.Instruction); ok {
			return in.Block()
		}
		return nil // constants, parameters: available everywhere
	}
	// loop invariants are statements about the START of the header block: of the definitions in
	// the header itself only the phis exist there
	atHeaderStart := fr.evalPoint == nil && fr.curLoop != nil
	var best ssa.Value
	var bestB *ssa.BasicBlock
	haveBest := false
	for _, c := range cands {
		if _, isC := c.(*ssa.Const); !isC {
			if _, have := fr.vals[c]; !have {
				continue
			}
		}
		cb := blockOf(c)
		if atHeaderStart && cb == fr.curLoop.header {
			if _, isPhi := c.(*ssa.Phi); !isPhi {
				continue
			}
		}
		ok := true
		if cb != nil {
			for _, p := range points {
				if !cb.Dominates(p) {
					ok = false
				}
			}
		}
		if !ok {
			continue
		}
		if !haveBest {
			best, bestB, haveBest = c, cb, true
			continue
		}
		// prefer the definition closest to the point: the one dominated by the other
		switch {
		case bestB == nil && cb != nil:
			best, bestB = c, cb
		case bestB != nil && cb != nil && bestB != cb && bestB.Dominates(cb):
			best, bestB = c, cb
		case bestB != nil && cb != nil && bestB == cb:
			// same block: the later instruction wins; phis come first
			if _, isPhi := c.(*ssa.Phi); !isPhi {
				best = c
			}
		}
	}
	if _, isC := best.(*ssa.Const); haveBest && isC && len(points) > 1 {
		// the only definition that reaches every exit is the variable's zero initialisation, and a
		// real assignment reaches some of them (var x T; ...; x = f()): a clause about x speaks
		// about the exits the assignment reaches (it is guarded by a condition that excludes the
		// others); use the assignment that dominates most exits
		var alt ssa.Value
		altN := 0
		for _, c := range cands {
			if _, isC := c.(*ssa.Const); isC {
				continue
			}
			if _, have := fr.vals[c]; !have {
				continue
			}
			cb := blockOf(c)
			if cb == nil {
				continue
			}
			n := 0
			for _, p := range points {
				if cb.Dominates(p) {
					n++
				}
			}
			if n > altN {
				alt, altN = c, n
			}
		}
		if alt != nil {
			best = alt
		}
	}
	if !haveBest {
		// no definition dominates every exit: the variable is only meaningful on some paths; use the
		// deepest executed definition (on other paths its value is simply unconstrained)
		for _, c := range cands {
			if _, isC := c.(*ssa.Const); isC {
				continue
			}
			if _, have := fr.vals[c]; have {
				best, haveBest = c, true
			}
		}
	}
	return best, haveBest
}

func (fr *Frame) evalExprText(text string, cur, old *State, extra map[string]bound) (Value, types.Type, error) {
	e, err := parseContractExpr(text)
	if err != nil {
		return Value{}, nil, err
	}
	ec := &evalCtx{vc: fr.vc, fr: fr, pkg: fr.fn.Pkg.Pkg, cur: cur, old: old, now: cur, qvars: map[string]bound{}}
	ec.lookup = fr.frameLookupNow(extra, &ec.now)
	fr.clauseIdents = identsOf(e)
	defer func() { fr.clauseIdents = nil }()
	return ec.evalSafe(e)
}

// evalGoal: for proof goals; universal quantifiers in top-level conjunct positions are
// skolemised (equivalent for validity); the skolem constants are returned so that the caller
// can instantiate its universal assumptions at them.
func (fr *Frame) evalGoal(cl *Clause, cur, old *State, extra map[string]bound) (Term, []Term, error) {
	e, err := parseContractExpr(cl.Text)
	if err != nil {
		return "", nil, err
	}
	ec := &evalCtx{vc: fr.vc, fr: fr, pkg: fr.fn.Pkg.Pkg, cur: cur, old: old, now: cur, qvars: map[string]bound{}, skTop: true}
	ec.lookup = fr.frameLookupNow(extra, &ec.now)
	fr.clauseIdents = identsOf(e)
	defer func() { fr.clauseIdents = nil }()
	v, t, err := ec.evalSafe(e)
	if err != nil {
		return "", nil, err
	}
	if !isBoolT(t) || len(v.C) != 1 {
		return "", nil, fmt.Errorf("clause is not boolean: %s", cl.Text)
	}
	return v.C[0], ec.skolems, nil
}

// evalClauseInst: for assumptions; outermost universal quantifiers are additionally
// instantiated at the given terms.
func (fr *Frame) evalClauseInst(cl *Clause, cur, old *State, extra map[string]bound, inst []Term) (Term, error) {
	e, err := parseContractExpr(cl.Text)
	if err != nil {
		return "", err
	}
	ec := &evalCtx{vc: fr.vc, fr: fr, pkg: fr.fn.Pkg.Pkg, cur: cur, old: old, now: cur, qvars: map[string]bound{}, inst: inst}
	ec.lookup = fr.frameLookupNow(extra, &ec.now)
	fr.clauseIdents = identsOf(e)
	defer func() { fr.clauseIdents = nil }()
	v, t, err := ec.evalSafe(e)
	if err != nil {
		return "", err
	}
	if !isBoolT(t) || len(v.C) != 1 {
		return "", fmt.Errorf("clause is not boolean: %s", cl.Text)
	}
	return v.C[0], nil
}

func (fr *Frame) evalClause(cl *Clause, cur, old *State, extra map[string]bound) (Term, error) {
	v, t, err := fr.evalExprText(cl.Text, cur, old, extra)
	if err != nil {
		return "", err
	}
	if !isBoolT(t) || len(v.C) != 1 {
		return "", fmt.Errorf("clause is not boolean: %s", cl.Text)
	}
	return v.C[0], nil
}

// evalInGoal: like evalIn, for proof goals (outermost foralls skolemised).
func (fr *Frame) evalInGoal(text string, pkg *types.Package, env map[string]bound, cur, old *State) (Value, []Term, error) {
	e, err := parseContractExpr(text)
	if err != nil {
		return Value{}, nil, err
	}
	lookup := func(name string, _ *State) (bound, bool) {
		b, ok := env[name]
		return b, ok
	}
	ec := &evalCtx{vc: fr.vc, fr: fr, pkg: pkg, lookup: lookup, cur: cur, old: old, now: cur, qvars: map[string]bound{}, skTop: true}
	v, _, err := ec.evalSafe(e)
	return v, ec.skolems, err
}

func (fr *Frame) evalIn(text string, pkg *types.Package, env map[string]bound, cur, old *State, extra map[string]bound) (Value, types.Type, error) {
	e, err := parseContractExpr(text)
	if err != nil {
		return Value{}, nil, err
	}
	lookup := func(name string, _ *State) (bound, bool) {
		if extra != nil {
			if b, ok := extra[name]; ok {
				return b, true
			}
		}
		b, ok := env[name]
		return b, ok
	}
	ec := &evalCtx{vc: fr.vc, fr: fr, pkg: pkg, lookup: lookup, cur: cur, old: old, qvars: map[string]bound{}}
	return ec.evalSafe(e)
}

type evalErr struct{ msg string }

func (ec *evalCtx) fail(format string, a ...interface{}) {
	panic(evalErr{fmt.Sprintf(format, a...)})
}

func (ec *evalCtx) evalSafe(e ast.Expr) (v Value, t types.Type, err error) {
	defer func() {
		if r := recover(); r != nil {
			if ee, ok := r.(evalErr); ok {
				err = fmt.Errorf("%s", ee.msg)
				return
			}
			panic(r)
		}
	}()
	v, t = ec.eval(e)
	return
}

// ---------------------------------------------------------------------

func (ec *evalCtx) eval(e ast.Expr) (Value, types.Type) {
	vc := ec.vc
	if ec.skTop {
		// positions that keep the "top-level conjunct" status: parentheses, &&, implies(_, here), forall
		keep := false
		switch x := e.(type) {
		case *ast.ParenExpr:
			keep = true
		case *ast.BinaryExpr:
			keep = x.Op == token.LAND
		case *ast.CallExpr:
			if id, ok := x.Fun.(*ast.Ident); ok && (id.Name == "implies" || id.Name == "forall") {
				keep = true
			}
		}
		if !keep {
			ec.skTop = false
			defer func() { ec.skTop = true }()
		}
	}
	switch x := e.(type) {
	case *ast.ParenExpr:
		return ec.eval(x.X)
	case *ast.BasicLit:
		switch x.Kind {
		case token.INT:
			c := constant.MakeFromLiteral(x.Value, token.INT, 0)
			v, _ := constTerm(c, tUntypedInt)
			return v, tUntypedInt
		case token.CHAR:
			c := constant.MakeFromLiteral(x.Value, token.CHAR, 0)
			v, _ := constTerm(c, tUntypedInt)
			return v, tUntypedInt
		case token.FLOAT:
			c := constant.MakeFromLiteral(x.Value, token.FLOAT, 0)
			v, ok := constTerm(c, tReal)
			if !ok {
				ec.fail("float literal %s", x.Value)
			}
			return v, tReal
		case token.STRING:
			s, _ := strconv.Unquote(x.Value)
			return vc.strLit(s), types.Typ[types.String]
		}
	case *ast.Ident:
		return ec.evalIdent(x)
	case *ast.UnaryExpr:
		switch x.Op {
		case token.NOT:
			v, _ := ec.eval(x.X)
			return Value{C: []Term{sNot(v.C[0])}}, tBool
		case token.SUB:
			v, t := ec.eval(x.X)
			if isFloat(t) || t == tReal {
				return Value{C: []Term{"(- " + v.C[0] + ")"}}, t
			}
			return Value{C: []Term{iNeg(v.C[0])}}, t
		case token.AND:
			p, _ := ec.evalAddr(x.X)
			return p, types.NewPointer(types.Typ[types.Int])
		}
	case *ast.StarExpr:
		p, pt := ec.eval(x.X)
		ptr, ok := pt.Underlying().(*types.Pointer)
		if !ok {
			ec.fail("dereference of non-pointer %s", types.ExprString(x.X))
		}
		return vc.load(ec.cur, p, ptr.Elem()), ptr.Elem()
	case *ast.BinaryExpr:
		return ec.evalBinary(x)
	case *ast.SelectorExpr:
		return ec.evalSelector(x)
	case *ast.IndexExpr:
		return ec.evalIndex(x)
	case *ast.SliceExpr:
		v, t := ec.eval(x.X)
		lo, hi := Term("0"), Term("")
		if x.Low != nil {
			l, _ := ec.eval(x.Low)
			lo = l.C[0]
		}
		if x.High != nil {
			h, _ := ec.eval(x.High)
			hi = h.C[0]
		} else {
			hi = v.C[2]
		}
		if isStringT(t) {
			return Value{C: []Term{v.C[0], iAdd(v.C[1], lo), iSub(hi, lo)}}, t
		}
		if _, ok := t.Underlying().(*types.Slice); ok {
			return Value{C: []Term{v.C[0], iAdd(v.C[1], lo), iSub(hi, lo), iSub(v.C[3], lo)}}, t
		}
		ec.fail("slice expression on %s", t)
	case *ast.CallExpr:
		return ec.evalCall(x)
	}
	ec.fail("unsupported expression %s", types.ExprString(e))
	return Value{}, nil
}

func (ec *evalCtx) evalIdent(x *ast.Ident) (Value, types.Type) {
	switch x.Name {
	case "true":
		return Value{C: []Term{"true"}}, tBool
	case "false":
		return Value{C: []Term{"false"}}, tBool
	case "nil":
		return Value{C: []Term{"0"}}, types.Typ[types.UntypedNil]
	}
	if b, ok := ec.qvars[x.Name]; ok {
		return b.v, b.t
	}
	if b, ok := ec.lookup(x.Name, ec.cur); ok {
		return b.v, b.t
	}
	// package-level object
	if ec.pkg != nil {
		if obj := ec.pkg.Scope().Lookup(x.Name); obj != nil {
			return ec.pkgObject(obj)
		}
	}
	if obj := types.Universe.Lookup(x.Name); obj != nil {
		if c, ok := obj.(*types.Const); ok {
			v, _ := constTerm(c.Val(), c.Type())
			return v, c.Type()
		}
	}
	ec.fail("unknown identifier %q", x.Name)
	return Value{}, nil
}

func (ec *evalCtx) pkgObject(obj types.Object) (Value, types.Type) {
	vc := ec.vc
	switch o := obj.(type) {
	case *types.Const:
		if isStringT(o.Type()) {
			return vc.strLit(constant.StringVal(o.Val())), o.Type()
		}
		v, ok := constTerm(o.Val(), o.Type())
		if !ok {
			ec.fail("constant %s", o.Name())
		}
		return v, o.Type()
	case *types.Var:
		sp := vc.eng.prog.Package(o.Pkg())
		if sp == nil {
			ec.fail("no ssa package for %s", o.Pkg().Path())
		}
		g, ok := sp.Members[o.Name()].(*ssa.Global)
		if !ok {
			ec.fail("%s is not a global", o.Name())
		}
		p := ec.fr.val(g)
		return vc.load(ec.cur, p, o.Type()), o.Type()
	case *types.Func:
		sp := vc.eng.prog.Package(o.Pkg())
		if sp != nil {
			if f := sp.Func(o.Name()); f != nil {
				return Value{C: []Term{vc.funcRef(f)}}, o.Type()
			}
		}
	}
	ec.fail("unsupported package object %s", obj)
	return Value{}, nil
}

func isNilT(t types.Type) bool {
	b, ok := t.(*types.Basic)
	return ok && b.Kind() == types.UntypedNil
}

func isNumericT(t types.Type) bool {
	if t == nil {
		return false
	}
	b, ok := t.Underlying().(*types.Basic)
	return ok && b.Info()&(types.IsInteger|types.IsFloat) != 0
}

func (ec *evalCtx) evalBinary(x *ast.BinaryExpr) (Value, types.Type) {
	vc := ec.vc
	switch x.Op {
	case token.LAND:
		a, _ := ec.eval(x.X)
		b, _ := ec.eval(x.Y)
		return Value{C: []Term{sAnd(a.C[0], b.C[0])}}, tBool
	case token.LOR:
		a, _ := ec.eval(x.X)
		b, _ := ec.eval(x.Y)
		return Value{C: []Term{sOr(a.C[0], b.C[0])}}, tBool
	}
	a, at := ec.eval(x.X)
	b, bt := ec.eval(x.Y)
	// int/real coercion
	aReal := isFloat(at) || at == tReal
	bReal := isFloat(bt) || bt == tReal
	if aReal && !bReal && isNumericT(bt) {
		b = Value{C: []Term{toReal(b.C[0])}}
		bt = at
	}
	if bReal && !aReal && isNumericT(at) {
		a = Value{C: []Term{toReal(a.C[0])}}
		at = bt
	}
	switch x.Op {
	case token.EQL, token.NEQ:
		var eq Term
		switch {
		case isNilT(bt):
			eq = sEq(a.C[0], "0")
		case isNilT(at):
			eq = sEq(b.C[0], "0")
		default:
			_, ai := at.Underlying().(*types.Interface)
			_, bi := bt.Underlying().(*types.Interface)
			if ai && !bi {
				b = vc.makeIface(b, bt)
				bt = at
			} else if bi && !ai {
				a = vc.makeIface(a, at)
				at = bt
			}
			eq = vc.valuesEqual(a, b, at, bt)
		}
		if x.Op == token.NEQ {
			eq = sNot(eq)
		}
		return Value{C: []Term{eq}}, tBool
	case token.LSS, token.LEQ, token.GTR, token.GEQ:
		return Value{C: []Term{"(" + cmpOp(x.Op) + " " + a.C[0] + " " + b.C[0] + ")"}}, tBool
	}
	rt := at
	if at == tUntypedInt || isNilT(at) {
		rt = bt
	}
	if aReal || bReal {
		var op string
		switch x.Op {
		case token.ADD:
			op = "+"
		case token.SUB:
			op = "-"
		case token.MUL:
			op = "*"
		case token.QUO:
			op = "/"
		default:
			ec.fail("real operator %s", x.Op)
		}
		return Value{C: []Term{"(" + op + " " + a.C[0] + " " + b.C[0] + ")"}}, rt
	}
	switch x.Op {
	case token.ADD:
		return Value{C: []Term{iAdd(a.C[0], b.C[0])}}, rt
	case token.SUB:
		return Value{C: []Term{iSub(a.C[0], b.C[0])}}, rt
	case token.MUL:
		return Value{C: []Term{iMul(a.C[0], b.C[0])}}, rt
	case token.QUO:
		return Value{C: []Term{tdiv(a.C[0], b.C[0], false)}}, rt
	case token.REM:
		return Value{C: []Term{trem(a.C[0], b.C[0], false)}}, rt
	case token.SHR:
		if k, ok := isSmallConst(b.C[0]); ok && k >= 0 && k < 64 {
			return Value{C: []Term{"(div " + a.C[0] + " " + pow2[k] + ")"}}, rt
		}
	case token.SHL:
		if k, ok := isSmallConst(b.C[0]); ok && k >= 0 && k < 64 {
			return Value{C: []Term{iMul(a.C[0], pow2[k])}}, rt
		}
	case token.AND:
		if m, ok := isBigConst(b.C[0]); ok && m.Sign() >= 0 {
			return Value{C: []Term{andConst(a.C[0], m)}}, rt
		}
	}
	ec.fail("unsupported operator %s", x.Op)
	return Value{}, nil
}

func toReal(t Term) Term {
	if _, ok := isBigConst(t); ok {
		if strings.HasPrefix(t, "(- ") {
			return "(- " + t[3:len(t)-1] + ".0)"
		}
		return t + ".0"
	}
	return "(to_real " + t + ")"
}

// evalAddr returns a pointer to the location denoted by e.
func (ec *evalCtx) evalAddr(e ast.Expr) (Value, types.Type) {
	vc := ec.vc
	switch x := e.(type) {
	case *ast.ParenExpr:
		return ec.evalAddr(x.X)
	case *ast.StarExpr:
		p, pt := ec.eval(x.X)
		ptr, ok := pt.Underlying().(*types.Pointer)
		if !ok {
			ec.fail("dereference of non-pointer")
		}
		return p, ptr.Elem()
	case *ast.SelectorExpr:
		if id, ok := x.X.(*ast.Ident); ok && ec.isPkgName(id.Name) {
			break
		}
		// base: pointer or addressable struct
		var base Value
		var st types.Type
		bv, bt := ec.tryEvalPtrBase(x.X)
		base, st = bv, bt
		if st == nil {
			break
		}
		obj, path, _ := types.LookupFieldOrMethod(st, true, ec.pkg, x.Sel.Name)
		if obj == nil {
			// unexported field of another package
			obj, path, _ = types.LookupFieldOrMethod(st, true, pkgOfType(st), x.Sel.Name)
		}
		fv, ok := obj.(*types.Var)
		if !ok || !fv.IsField() {
			ec.fail("no field %s in %s", x.Sel.Name, st)
		}
		cur := base
		ct := st
		for _, idx := range path {
			if p, isP := ct.Underlying().(*types.Pointer); isP {
				// embedded pointer: load it
				cur = vc.load(ec.cur, cur, ct)
				ct = p.Elem()
			}
			s, _ := isStruct(ct)
			cur = vc.fieldPtr(cur, ct, idx)
			ct = s.Field(idx).Type()
		}
		return cur, ct
	case *ast.IndexExpr:
		v, t := ec.eval(x.X)
		i, _ := ec.eval(x.Index)
		switch u := t.Underlying().(type) {
		case *types.Slice:
			return vc.elemPtr(v.C[0], iAdd(v.C[1], i.C[0]), u.Elem()), u.Elem()
		case *types.Pointer:
			if at, ok := u.Elem().Underlying().(*types.Array); ok {
				return vc.elemPtr(v.C[0], i.C[0], at.Elem()), at.Elem()
			}
		}
	case *ast.Ident:
		// address-taken local, captured variable or global
		if ec.fr != nil {
			if _, shadow := ec.qvars[x.Name]; !shadow {
				for _, fv := range ec.fr.fn.FreeVars {
					if fv.Name() == x.Name {
						return ec.fr.val(fv), fv.Type().(*types.Pointer).Elem()
					}
				}
			}
			if a, ok := ec.fr.names["&"+x.Name]; ok {
				return ec.fr.val(a), a.Type().(*types.Pointer).Elem()
			}
		}
		if ec.pkg != nil {
			if obj, ok := ec.pkg.Scope().Lookup(x.Name).(*types.Var); ok {
				sp := vc.eng.prog.Package(obj.Pkg())
				if g, ok := sp.Members[obj.Name()].(*ssa.Global); ok {
					return ec.fr.val(g), obj.Type()
				}
			}
		}
	}
	ec.fail("expression is not addressable in contracts: %s", types.ExprString(e))
	return Value{}, nil
}

func pkgOfType(t types.Type) *types.Package {
	if n := namedOf(t); n != nil {
		return n.Obj().Pkg()
	}
	return nil
}

func (ec *evalCtx) isPkgName(name string) bool {
	if name == "ghost" {
		return true
	}
	if _, ok := ec.qvars[name]; ok {
		return false
	}
	if _, ok := ec.lookup(name, ec.cur); ok {
		return false
	}
	if ec.pkg == nil {
		return false
	}
	for _, imp := range ec.pkg.Imports() {
		if imp.Name() == name {
			return true
		}
	}
	return false
}

// tryEvalPtrBase: for x in x.f — returns a pointer to the struct and the struct type.
func (ec *evalCtx) tryEvalPtrBase(e ast.Expr) (Value, types.Type) {
	// if e itself is addressable as a struct location (x.f where f is a struct field), use its address
	switch y := e.(type) {
	case *ast.SelectorExpr, *ast.IndexExpr, *ast.StarExpr:
		func() {
			defer func() { recover() }()
			_ = y
		}()
		var p Value
		var t types.Type
		ok := func() (ok bool) {
			defer func() {
				if r := recover(); r != nil {
					if _, is := r.(evalErr); is {
						ok = false
						return
					}
					panic(r)
				}
			}()
			p, t = ec.evalAddr(e)
			return true
		}()
		if ok {
			if _, isS := isStruct(t); isS {
				return p, t
			}
			if pt, isP := t.Underlying().(*types.Pointer); isP {
				v := ec.vc.load(ec.cur, p, t)
				return v, pt.Elem()
			}
		}
	}
	v, t := ec.eval(e)
	if pt, ok := t.Underlying().(*types.Pointer); ok {
		return v, pt.Elem()
	}
	return Value{}, nil
}

func (ec *evalCtx) evalSelector(x *ast.SelectorExpr) (Value, types.Type) {
	vc := ec.vc
	if id, ok := x.X.(*ast.Ident); ok {
		if id.Name == "ghost" {
			return ec.ghostValue(x.Sel.Name)
		}
		if ec.isPkgName(id.Name) {
			for _, imp := range ec.pkg.Imports() {
				if imp.Name() == id.Name {
					obj := imp.Scope().Lookup(x.Sel.Name)
					if obj == nil {
						ec.fail("%s.%s not found", id.Name, x.Sel.Name)
					}
					return ec.pkgObject(obj)
				}
			}
		}
	}
	// struct value (non-addressable) selection
	bv, bt := ec.tryEvalPtrBase(x.X)
	if bt != nil {
		_ = bv
		p, t := ec.evalAddr(x)
		return vc.load(ec.cur, p, t), t
	}
	v, t := ec.eval(x.X)
	if s, ok := isStruct(t); ok {
		for i := 0; i < s.NumFields(); i++ {
			if s.Field(i).Name() == x.Sel.Name {
				lo, hi := fieldRange(s, i)
				return Value{C: v.C[lo:hi]}, s.Field(i).Type()
			}
		}
	}
	ec.fail("cannot select %s from %s", x.Sel.Name, t)
	return Value{}, nil
}

// ghostArrT is the type of a (partially indexed) ghost array.
type ghostArrT struct {
	decl *GhostDecl
	left int
	elem types.Type
}

func (g *ghostArrT) Underlying() types.Type { return g }
func (g *ghostArrT) String() string         { return "ghost array " + g.decl.Name }

func (e *Engine) ghostElemType(g *GhostDecl) types.Type {
	switch g.Sort {
	case "Int":
		return tUntypedInt
	case "Bool":
		return tBool
	case "Real":
		return tReal
	}
	return e.ghostGoType(g)
}

func ghostSort(elemSort string, dims int) string {
	s := elemSort
	for i := 0; i < dims; i++ {
		s = "(Array Int " + s + ")"
	}
	return s
}

func (ec *evalCtx) ghostValue(name string) (Value, types.Type) {
	vc := ec.vc
	g, ok := vc.eng.cs.Ghosts[name]
	if !ok {
		ec.fail("undeclared ghost %s", name)
	}
	et := vc.eng.ghostElemType(g)
	if et == nil {
		ec.fail("ghost %s: cannot resolve type %s", g.Name, g.GoType)
	}
	cs := comps(et)
	out := Value{C: make([]Term, len(cs))}
	for i, c := range cs {
		out.C[i] = vc.get(ec.cur, "ghost."+g.Name+c.Suffix, ghostSort(c.Sort, g.Dims))
	}
	if g.Dims == 0 {
		return out, et
	}
	return out, &ghostArrT{g, g.Dims, et}
}

func (ec *evalCtx) evalIndex(x *ast.IndexExpr) (Value, types.Type) {
	vc := ec.vc
	v, t := ec.eval(x.X)
	i, _ := ec.eval(x.Index)
	if ga, ok := t.(*ghostArrT); ok {
		out := Value{C: make([]Term, len(v.C))}
		for k := range v.C {
			out.C[k] = sSel(v.C[k], i.C[0])
		}
		if ga.left == 1 {
			return out, ga.elem
		}
		return out, &ghostArrT{ga.decl, ga.left - 1, ga.elem}
	}
	switch u := t.Underlying().(type) {
	case *types.Slice:
		p := vc.elemPtr(v.C[0], iAdd(v.C[1], i.C[0]), u.Elem())
		return vc.load(ec.cur, p, u.Elem()), u.Elem()
	case *types.Basic:
		if isStringT(t) {
			m := vc.get(ec.cur, "S.byte", "(Array Int (Array Int Int))")
			return Value{C: []Term{sSel(sSel(m, v.C[0]), iAdd(v.C[1], i.C[0]))}}, types.Typ[types.Uint8]
		}
	case *types.Array:
		cs := comps(u.Elem())
		out := Value{C: make([]Term, len(cs))}
		for k := range cs {
			out.C[k] = sSel(v.C[k], i.C[0])
		}
		return out, u.Elem()
	case *types.Pointer:
		if at, ok := u.Elem().Underlying().(*types.Array); ok {
			p := vc.elemPtr(v.C[0], i.C[0], at.Elem())
			return vc.load(ec.cur, p, at.Elem()), at.Elem()
		}
	case *types.Map:
		kt, ok := mapKeyTerm(vc, i, u.Key())
		if !ok {
			ec.fail("map key type not modelled")
		}
		fam := mapFam(t)
		cs := comps(u.Elem())
		out := Value{C: make([]Term, len(cs))}
		for k, c := range cs {
			a := vc.get(ec.cur, fam+".val"+c.Suffix, "(Array Int (Array Int "+c.Sort+"))")
			out.C[k] = sSel(sSel(a, v.C[0]), kt)
		}
		return out, u.Elem()
	}
	ec.fail("cannot index %s", t)
	return Value{}, nil
}

func (ec *evalCtx) evalCall(x *ast.CallExpr) (Value, types.Type) {
	vc := ec.vc
	name := ""
	switch f := x.Fun.(type) {
	case *ast.Ident:
		name = f.Name
	case *ast.SelectorExpr:
		if id, ok := f.X.(*ast.Ident); ok {
			name = id.Name + "." + f.Sel.Name
		}
	}
	arg := func(i int) (Value, types.Type) {
		if i >= len(x.Args) {
			ec.fail("%s: missing argument %d", name, i)
		}
		return ec.eval(x.Args[i])
	}
	switch name {
	case "old":
		if ec.old == nil {
			ec.fail("old() not available here")
		}
		saved := ec.cur
		ec.cur = ec.old
		v, t := arg(0)
		ec.cur = saved
		return v, t
	case "implies":
		top := ec.skTop
		ec.skTop = false
		a, _ := arg(0)
		ec.skTop = top
		b, _ := arg(1)
		return Value{C: []Term{sImp(a.C[0], b.C[0])}}, tBool
	case "iff":
		a, _ := arg(0)
		b, _ := arg(1)
		return Value{C: []Term{sEq(a.C[0], b.C[0])}}, tBool
	case "ite":
		c, _ := arg(0)
		a, at := arg(1)
		b, _ := arg(2)
		out := Value{C: make([]Term, len(a.C))}
		for i := range a.C {
			out.C[i] = sIte(c.C[0], a.C[i], b.C[i])
		}
		return out, at
	case "len":
		v, t := arg(0)
		switch u := t.Underlying().(type) {
		case *types.Slice, *types.Basic:
			return Value{C: []Term{v.C[2]}}, types.Typ[types.Int]
		case *types.Array:
			return Value{C: []Term{sInt(u.Len())}}, types.Typ[types.Int]
		case *types.Map:
			cn := vc.get(ec.cur, mapFam(t)+".count", "(Array Int Int)")
			return Value{C: []Term{sIte(sEq(v.C[0], "0"), "0", sSel(cn, v.C[0]))}}, types.Typ[types.Int]
		case *types.Chan:
			a := vc.get(ec.cur, "ghost.chanlen", "(Array Int Int)")
			return Value{C: []Term{sSel(a, v.C[0])}}, types.Typ[types.Int]
		}
		ec.fail("len of %s", t)
	case "cap":
		v, t := arg(0)
		switch t.Underlying().(type) {
		case *types.Slice:
			return Value{C: []Term{v.C[3]}}, types.Typ[types.Int]
		case *types.Chan:
			a := vc.get(ec.cur, "ghost.chancap", "(Array Int Int)")
			return Value{C: []Term{sSel(a, v.C[0])}}, types.Typ[types.Int]
		}
		ec.fail("cap of %s", t)
	case "forall", "exists":
		// forall(i, lo, hi, body)
		id, ok := x.Args[0].(*ast.Ident)
		if !ok || (len(x.Args) != 4 && len(x.Args) != 2) {
			ec.fail("%s(i, lo, hi, body) or %s(k, body)", name, name)
		}
		top := ec.skTop
		ec.skTop = false
		bi := 3
		unb := len(x.Args) == 2 // forall(k, body): k ranges over all integers
		var lo, hi Value
		if unb {
			bi = 1
		} else {
			lo, _ = arg(1)
			hi, _ = arg(2)
		}
		inRange := func(t Term) Term {
			if unb {
				return "true"
			}
			return sAnd("(<= "+lo.C[0]+" "+t+")", "(< "+t+" "+hi.C[0]+")")
		}
		if top && name == "forall" && vc.inQuant == 0 {
			// goal position: prove the body for a fresh constant
			sk := vc.fresh("sk."+id.Name, "Int")
			ec.skolems = append(ec.skolems, sk)
			saved, had := ec.qvars[id.Name]
			ec.qvars[id.Name] = bound{Value{C: []Term{sk}}, types.Typ[types.Int]}
			ec.skTop = true
			b, _ := arg(bi)
			if had {
				ec.qvars[id.Name] = saved
			} else {
				delete(ec.qvars, id.Name)
			}
			return Value{C: []Term{sImp(inRange(sk), b.C[0])}}, tBool
		}
		defer func() { ec.skTop = top }()
		vc.nfresh++
		qn := sym(fmt.Sprintf("%s!q%d", id.Name, vc.nfresh))
		saved, had := ec.qvars[id.Name]
		ec.qvars[id.Name] = bound{Value{C: []Term{qn}}, types.Typ[types.Int]}
		var body Value
		func() {
			vc.inQuant++
			defer func() { vc.inQuant-- }()
			body, _ = arg(bi)
		}()
		if had {
			ec.qvars[id.Name] = saved
		} else {
			delete(ec.qvars, id.Name)
		}
		rng := inRange(qn)
		if name == "forall" {
			q := "(forall ((" + qn + " Int)) " + sImp(rng, body.C[0]) + ")"
			if len(ec.inst) > 0 && vc.inQuant == 0 {
				// instantiation hints (sound: instances of the universal statement itself)
				parts := []Term{q}
				insts := append([]Term{}, ec.inst...)
				if !unb {
					insts = append(insts, lo.C[0], iSub(hi.C[0], "1"))
				}
				done := map[Term]bool{}
				for _, t := range insts {
					if done[t] {
						continue
					}
					done[t] = true
					saved, had := ec.qvars[id.Name]
					ec.qvars[id.Name] = bound{Value{C: []Term{t}}, types.Typ[types.Int]}
					keep := ec.inst
					ec.inst = nil
					b, _ := arg(bi)
					ec.inst = keep
					if had {
						ec.qvars[id.Name] = saved
					} else {
						delete(ec.qvars, id.Name)
					}
					parts = append(parts, sImp(inRange(t), b.C[0]))
				}
				return Value{C: []Term{sAnd(parts...)}}, tBool
			}
			return Value{C: []Term{q}}, tBool
		}
		return Value{C: []Term{"(exists ((" + qn + " Int)) " + sAnd(rng, body.C[0]) + ")"}}, tBool
	case "same":
		a, _ := arg(0)
		b, _ := arg(1)
		if len(a.C) != len(b.C) {
			ec.fail("same(): values of different shape")
		}
		var eqs []Term
		for i := range a.C {
			eqs = append(eqs, sEq(a.C[i], b.C[i]))
		}
		return Value{C: []Term{sAnd(eqs...)}}, tBool
	case "typeis":
		// typeis(x, T): the dynamic type of interface value x is exactly T
		v, t := arg(0)
		if _, ok := t.Underlying().(*types.Interface); !ok {
			ec.fail("typeis of non-interface")
		}
		if len(x.Args) != 2 {
			ec.fail("typeis(x, T)")
		}
		tv, err := evalTypeExpr(vc.eng.fset, ec.pkg, types.ExprString(x.Args[1]))
		if err != nil || tv.Type == nil {
			ec.fail("typeis: cannot resolve type %s", types.ExprString(x.Args[1]))
		}
		return Value{C: []Term{sEq(v.C[0], sInt(int64(vc.eng.typeId(tv.Type))))}}, tBool
	case "as":
		// as(x, *T): the pointer held in interface value x, read at type *T (what x.(*T) yields
		// when it succeeds; meaningful only under typeis(x, *T))
		v, t := arg(0)
		if _, ok := t.Underlying().(*types.Interface); !ok || len(x.Args) != 2 {
			ec.fail("as(x, *T) of an interface value")
		}
		tv, err := evalTypeExpr(vc.eng.fset, ec.pkg, types.ExprString(x.Args[1]))
		if err != nil || tv.Type == nil {
			ec.fail("as: cannot resolve type %s", types.ExprString(x.Args[1]))
		}
		switch tv.Type.Underlying().(type) {
		case *types.Pointer, *types.Chan, *types.Map:
		default:
			ec.fail("as: only pointer, channel and map types")
		}
		return Value{C: []Term{v.C[1]}}, tv.Type
	case "typeof":
		v, t := arg(0)
		if _, ok := t.Underlying().(*types.Interface); !ok {
			ec.fail("typeof of non-interface")
		}
		return Value{C: []Term{v.C[0]}}, tUntypedInt
	case "ival":
		v, _ := arg(0)
		return Value{C: []Term{v.C[1]}}, tUntypedInt
	case "str":
		v, t := arg(0)
		if !isStringT(t) {
			ec.fail("str of non-string")
		}
		return Value{C: []Term{vc.strId(v)}}, tUntypedInt
	case "unixnano":
		v, _ := arg(0)
		vc.declareFun("unixnano", []string{"Int", "Int"}, "Int")
		return Value{C: []Term{sApp("unixnano", v.C[0], v.C[1])}}, types.Typ[types.Int64]
	case "elems":
		// the backing array of a slice as a ghost array (single-component element types)
		v, t := arg(0)
		sl, ok := t.Underlying().(*types.Slice)
		if !ok {
			ec.fail("elems of non-slice")
		}
		cs := comps(sl.Elem())
		out := Value{C: make([]Term, len(cs))}
		for k, c := range cs {
			m := vc.get(ec.cur, "M."+typeKey(sl.Elem())+c.Suffix, "(Array Int (Array Int "+c.Sort+"))")
			out.C[k] = sSel(m, v.C[0])
		}
		return out, &ghostArrT{&GhostDecl{Name: "elems"}, 1, sl.Elem()}
	case "rangeiter":
		// number of completed iterations of the map range loop we are in
		if ec.fr == nil || ec.fr.curLoop == nil {
			ec.fail("rangeiter() outside a loop")
		}
		for _, in := range ec.fr.curLoop.header.Instrs {
			if nx, ok := in.(*ssa.Next); ok {
				id := ec.fr.val(nx.Iter).C[0]
				it := vc.get(ec.cur, "ghost.rangeit", "(Array Int Int)")
				return Value{C: []Term{sSel(it, id)}}, tUntypedInt
			}
		}
		ec.fail("rangeiter(): the loop is not a range loop")
	case "calls":
		// calls(F): direct calls of F made so far by this activation
		if len(x.Args) != 1 {
			ec.fail("calls(FunctionName)")
		}
		id, ok := x.Args[0].(*ast.Ident)
		if !ok {
			ec.fail("calls(FunctionName)")
		}
		return Value{C: []Term{vc.get(ec.cur, "S.calls:"+id.Name, "Int")}}, tUntypedInt
	case "rangeidx":
		// number of completed iterations of the slice/array/string range loop we are in (the hidden
		// index of `for _, x := range s`)
		if ec.fr == nil {
			ec.fail("rangeidx() outside a loop")
		}
		loop := ec.fr.curLoop
		if loop == nil && ec.fr.evalPoint != nil {
			// at a call site (atcall/atsend/atmake): the innermost range loop around it
			for _, li := range ec.fr.loops {
				if !li.blocks[ec.fr.evalPoint] {
					continue
				}
				isRange := false
				for _, in := range li.header.Instrs {
					if phi, ok := in.(*ssa.Phi); ok && phi.Comment == "rangeindex" {
						isRange = true
					}
				}
				if isRange && (loop == nil || len(li.blocks) < len(loop.blocks)) {
					loop = li
				}
			}
		}
		if loop == nil {
			ec.fail("rangeidx() outside a loop")
		}
		for _, in := range loop.header.Instrs {
			if phi, ok := in.(*ssa.Phi); ok && phi.Comment == "rangeindex" {
				return Value{C: []Term{iAdd(ec.fr.val(phi).C[0], "1")}}, tUntypedInt
			}
		}
		ec.fail("rangeidx(): the loop is not a range loop over a slice")
	case "haskey":
		// haskey(m, k): map m has an entry for key k
		v, t := arg(0)
		k, _ := arg(1)
		mu, ok := t.Underlying().(*types.Map)
		if !ok {
			ec.fail("haskey of non-map")
		}
		kt, ok := mapKeyTerm(vc, k, mu.Key())
		if !ok {
			ec.fail("map key type not modelled")
		}
		has := vc.get(ec.cur, mapFam(t)+".has", "(Array Int (Array Int Bool))")
		return Value{C: []Term{sAnd(sNot(sEq(v.C[0], "0")), sSel(sSel(has, v.C[0]), kt))}}, tBool
	case "lastsent":
		// lastsent(ch): the value most recently sent on channel ch (ghost, maintained by the generator)
		v, t := arg(0)
		cht, ok := t.Underlying().(*types.Chan)
		if !ok {
			ec.fail("lastsent of non-channel")
		}
		et := cht.Elem()
		cs := comps(et)
		out := Value{C: make([]Term, len(cs))}
		for i, c := range cs {
			a := vc.get(ec.cur, chanLastKey(et)+c.Suffix, "(Array Int "+c.Sort+")")
			out.C[i] = sSel(a, v.C[0])
		}
		return out, et
	case "isnew":
		// isnew(x): the object x refers to (pointer, slice, map, chan) was allocated by this activation
		v, _ := arg(0)
		if ec.old == nil {
			ec.fail("isnew() needs a pre-state")
		}
		a0 := vc.get(ec.old, allocKey, allocSort)
		return Value{C: []Term{sAnd(sNot(sSel(a0, v.C[0])), sNot(sEq(v.C[0], "0")))}}, tBool
	case "mem":
		// mem(s, j): the element at ABSOLUTE index j of the array underlying slice s (s[i] is
		// mem(s, off(s)+i)); quantifying over j keeps the solver's matching syntactic
		v, t := arg(0)
		j, _ := arg(1)
		u, ok := t.Underlying().(*types.Slice)
		if !ok {
			ec.fail("mem(s, j) of a non-slice")
		}
		p := vc.elemPtr(v.C[0], j.C[0], u.Elem())
		return vc.load(ec.cur, p, u.Elem()), u.Elem()
	case "arr":
		v, _ := arg(0)
		return Value{C: []Term{v.C[0]}}, tUntypedInt
	case "off":
		v, _ := arg(0)
		return Value{C: []Term{v.C[1]}}, tUntypedInt
	case "ref":
		v, _ := arg(0)
		return Value{C: []Term{v.C[0]}}, tUntypedInt
	case "addr":
		p, _ := ec.evalAddr(x.Args[0])
		return Value{C: []Term{p.C[0]}}, tUntypedInt
	case "isclosure":
		// isclosure(f, "pkg::Key") : f is a closure made from that function literal
		ec.fail("isclosure not supported")
	case "to_real":
		v, _ := arg(0)
		return Value{C: []Term{toReal(v.C[0])}}, tReal
	case "to_int":
		v, _ := arg(0)
		return Value{C: []Term{"(to_int " + v.C[0] + ")"}}, tUntypedInt
	}
	// conversions to basic types
	if obj := types.Universe.Lookup(name); obj != nil {
		if tn, ok := obj.(*types.TypeName); ok && len(x.Args) == 1 {
			v, t := arg(0)
			tt := tn.Type()
			switch {
			case isFloat(tt) && (isInteger(t) || t == tUntypedInt):
				return Value{C: []Term{toReal(v.C[0])}}, tt
			case isInteger(tt) && (isFloat(t) || t == tReal):
				return Value{C: []Term{"(ite (>= " + v.C[0] + " 0.0) (to_int " + v.C[0] + ") (- (to_int (- " + v.C[0] + "))))"}}, tt
			case isInteger(tt) && (isInteger(t) || t == tUntypedInt):
				// specification integers are mathematical: conversion wraps like Go only when
				// asked explicitly through wrapN(); plain T(x) keeps the value
				return v, tt
			}
			return v, tt
		}
	}
	switch name {
	case "wrap8", "wrap16", "wrap32", "wrap64", "wrapu8", "wrapu16", "wrapu32", "wrapu64":
		v, _ := arg(0)
		m := map[string]types.Type{"wrap8": types.Typ[types.Int8], "wrap16": types.Typ[types.Int16], "wrap32": types.Typ[types.Int32], "wrap64": types.Typ[types.Int64],
			"wrapu8": types.Typ[types.Uint8], "wrapu16": types.Typ[types.Uint16], "wrapu32": types.Typ[types.Uint32], "wrapu64": types.Typ[types.Uint64]}
		return Value{C: []Term{wrapTo(m[name], v.C[0])}}, m[name]
	}
	// named type conversion in this package (e.g. time.Duration(x))
	if sel, ok := x.Fun.(*ast.SelectorExpr); ok && len(x.Args) == 1 {
		if id, ok := sel.X.(*ast.Ident); ok && ec.isPkgName(id.Name) && ec.pkg != nil {
			for _, imp := range ec.pkg.Imports() {
				if imp.Name() == id.Name {
					if tn, ok := imp.Scope().Lookup(sel.Sel.Name).(*types.TypeName); ok {
						v, _ := arg(0)
						return v, tn.Type()
					}
				}
			}
		}
	}
	// spec functions
	if sig, ok := vc.eng.cs.SpecSyms[name]; ok {
		var ts []Term
		for i := range x.Args {
			v, _ := arg(i)
			ts = append(ts, v.C...)
		}
		var rt types.Type = tUntypedInt
		switch sig.Ret {
		case "Bool":
			rt = tBool
		case "Real":
			rt = tReal
		}
		return Value{C: []Term{sApp(sym(name), ts...)}}, rt
	}
	ec.fail("unknown function %q in contract", name)
	return Value{}, nil
}

// ---------------------------------------------------------------------
// modifies clauses

// A locRef names a set of heap cells: family Key (with component suffix), of
// full sort Sort, at index path Idx (shorter than the family's dimension =
// the whole sub-array).
type locRef struct {
	Key      string
	Sort     string
	Idx      []Term
	ElemArr  Term       // non-empty: every element object of this array (slice of structs), family Key
	ElemT    types.Type // ... whose element type is ElemT
	All      bool // everything (modifies heap)
	AllGhost bool // every ghost family (modifies ghost.*)
}

func sortDims(sort string) (dims int, elem string) {
	for strings.HasPrefix(sort, "(Array Int ") {
		dims++
		sort = sort[len("(Array Int ") : len(sort)-1]
	}
	return dims, sort
}

// locsOfPtr: the cells of a value of type t stored at pointer p
func (vc *VC) locsOfPtr(p Value, t types.Type) []locRef {
	var out []locRef
	if s, ok := isStruct(t); ok {
		for i := 0; i < s.NumFields(); i++ {
			out = append(out, vc.locsOfPtr(vc.fieldPtr(p, t, i), s.Field(i).Type())...)
		}
		return out
	}
	if a, ok := isArray(t); ok {
		ek := "M." + typeKey(a.Elem())
		for _, c := range comps(a.Elem()) {
			out = append(out, locRef{Key: ek + c.Suffix, Sort: "(Array Int (Array Int " + c.Sort + "))", Idx: []Term{p.C[0]}})
		}
		return out
	}
	sh := p.Sh
	if sh == nil {
		sh = &Shape{Kind: ShCell, Key: "C." + typeKey(t), Base: p.C[0], Typ: t}
	}
	for _, c := range comps(t) {
		switch sh.Kind {
		case ShCell, ShField:
			out = append(out, locRef{Key: sh.Key + c.Suffix, Sort: "(Array Int " + c.Sort + ")", Idx: []Term{sh.Base}})
		case ShElem:
			out = append(out, locRef{Key: sh.Key + c.Suffix, Sort: "(Array Int (Array Int " + c.Sort + "))", Idx: []Term{sh.Base, sh.Idx}})
		case ShGlobal:
			out = append(out, locRef{Key: sh.Key + c.Suffix, Sort: c.Sort})
		}
	}
	return out
}

// resolveLoc turns a modifies entry into cell sets, evaluated in state st.
func (fr *Frame) resolveLoc(m string, pkg *types.Package, env map[string]bound, st, old *State) (out []locRef, err error) {
	vc := fr.vc
	m = strings.TrimSpace(m)
	if m == "heap" {
		return []locRef{{All: true}}, nil
	}
	if m == "ghost.*" {
		return []locRef{{AllGhost: true}}, nil
	}
	if m == "nothing" || m == "" {
		return nil, nil
	}
	lookup := func(name string, _ *State) (bound, bool) { b, ok := env[name]; return b, ok }
	if env == nil {
		lookup = fr.frameLookup(nil)
	}
	ec := &evalCtx{vc: vc, fr: fr, pkg: pkg, lookup: lookup, cur: st, old: old, qvars: map[string]bound{}}
	defer func() {
		if r := recover(); r != nil {
			if ee, ok := r.(evalErr); ok {
				err = fmt.Errorf("%s", ee.msg)
				return
			}
			panic(r)
		}
	}()
	isGhostLoc := func() bool {
		if !strings.HasPrefix(m, "ghost.") {
			return false
		}
		e, perr := parseContractExpr(strings.TrimSuffix(m, "[*]"))
		if perr != nil {
			return false
		}
		for {
			ix, ok := e.(*ast.IndexExpr)
			if !ok {
				break
			}
			e = ix.X
		}
		sel, ok := e.(*ast.SelectorExpr)
		if !ok {
			return false
		}
		id, ok := sel.X.(*ast.Ident)
		return ok && id.Name == "ghost"
	}
	if isGhostLoc() {
		text := strings.TrimSuffix(m, "[*]")
		e, perr := parseContractExpr(text)
		if perr != nil {
			ec.fail("%v", perr)
		}
		var idxs []Term
		for {
			ix, ok := e.(*ast.IndexExpr)
			if !ok {
				break
			}
			iv, _ := ec.eval(ix.Index)
			idxs = append([]Term{iv.C[0]}, idxs...)
			e = ix.X
		}
		sel, ok := e.(*ast.SelectorExpr)
		if !ok {
			ec.fail("bad ghost location %s", m)
		}
		g, ok := vc.eng.cs.Ghosts[sel.Sel.Name]
		if !ok {
			ec.fail("undeclared ghost %s", sel.Sel.Name)
		}
		et := vc.eng.ghostElemType(g)
		if et == nil {
			ec.fail("ghost %s: cannot resolve type", g.Name)
		}
		for _, c := range comps(et) {
			out = append(out, locRef{Key: "ghost." + g.Name + c.Suffix, Sort: ghostSort(c.Sort, g.Dims), Idx: idxs})
		}
		return out, nil
	}
	if strings.HasSuffix(m, "[*]") {
		e, perr := parseContractExpr(strings.TrimSuffix(m, "[*]"))
		if perr != nil {
			ec.fail("%v", perr)
		}
		v, t := ec.eval(e)
		switch u := t.Underlying().(type) {
		case *types.Slice:
			ek := "M." + typeKey(u.Elem())
			if _, isS := isStruct(u.Elem()); isS {
				if _, flat := flatStruct(u.Elem()); !flat {
					ec.fail("[*] on a slice of structs with embedded structs or arrays is not supported")
				}
				for _, c := range comps(u.Elem()) {
					out = append(out, locRef{Key: structKey(u.Elem()) + c.Suffix, Sort: "(Array Int " + c.Sort + ")", ElemArr: v.C[0], ElemT: u.Elem()})
				}
				return out, nil
			}
			for _, c := range comps(u.Elem()) {
				out = append(out, locRef{Key: ek + c.Suffix, Sort: "(Array Int (Array Int " + c.Sort + "))", Idx: []Term{v.C[0]}})
			}
		case *types.Map:
			fam := mapFam(t)
			for _, c := range comps(u.Elem()) {
				out = append(out, locRef{Key: fam + ".val" + c.Suffix, Sort: "(Array Int (Array Int " + c.Sort + "))", Idx: []Term{v.C[0]}})
			}
			out = append(out, locRef{Key: fam + ".has", Sort: "(Array Int (Array Int Bool))", Idx: []Term{v.C[0]}})
			out = append(out, locRef{Key: fam + ".count", Sort: "(Array Int Int)", Idx: []Term{v.C[0]}})
		case *types.Pointer:
			at, ok := u.Elem().Underlying().(*types.Array)
			if !ok {
				ec.fail("[*] on %s", t)
			}
			ek := "M." + typeKey(at.Elem())
			for _, c := range comps(at.Elem()) {
				out = append(out, locRef{Key: ek + c.Suffix, Sort: "(Array Int (Array Int " + c.Sort + "))", Idx: []Term{v.C[0]}})
			}
		default:
			ec.fail("[*] on %s", t)
		}
		return out, nil
	}
	if strings.HasSuffix(m, ".*") {
		e, perr := parseContractExpr(strings.TrimSuffix(m, ".*"))
		if perr != nil {
			ec.fail("%v", perr)
		}
		v, t := ec.eval(e)
		pt, ok := t.Underlying().(*types.Pointer)
		if !ok {
			ec.fail(".* needs a pointer to struct")
		}
		return vc.locsOfPtr(v, pt.Elem()), nil
	}
	e, perr := parseContractExpr(m)
	if perr != nil {
		ec.fail("%v", perr)
	}
	p, t := ec.evalAddr(e)
	return vc.locsOfPtr(p, t), nil
}

// withChanLast: whoever may send on a channel (ghost.chansent[ch] in its frame) may also change
// the record of the last value sent on it.
func (vc *VC) withChanLast(locs []locRef) []locRef {
	out := locs
	for _, l := range locs {
		if l.All || l.AllGhost || l.Key != "ghost.chansent" {
			continue
		}
		for k, srt := range vc.famSort {
			if strings.HasPrefix(k, "ghost.chanlast:") {
				out = append(out, locRef{Key: k, Sort: srt, Idx: l.Idx})
			}
		}
	}
	return out
}

func (fr *Frame) havocLoc(m string, pkg *types.Package, env map[string]bound, st, old *State) error {
	vc := fr.vc
	locs, err := fr.resolveLoc(m, pkg, env, old, old)
	if err != nil {
		return err
	}
	locs = vc.withChanLast(locs)
	for _, l := range locs {
		if l.All {
			vc.havocAll(st)
			continue
		}
		if l.AllGhost {
			vc.havocAllGhost(st)
			continue
		}
		if l.ElemArr != "" {
			cur := vc.get(st, l.Key, l.Sort)
			neu := vc.fresh("havoc."+l.Key, l.Sort)
			vc.nfresh++
			q := sym(fmt.Sprintf("el!q%d", vc.nfresh))
			vc.emit("(assert (forall ((" + q + " Int)) (! (=> (not " + vc.isElemOf(q, l.ElemArr, l.ElemT) + ") (= (select " + neu + " " + q + ") (select " + cur + " " + q + "))) :pattern ((select " + neu + " " + q + ")))))")
			vc.set(st, l.Key, l.Sort, neu)
			continue
		}
		cur := vc.get(st, l.Key, l.Sort)
		dims, elem := sortDims(l.Sort)
		leaf := vc.fresh("havoc."+l.Key, ghostSort(elem, dims-len(l.Idx)))
		var upd func(a Term, ix []Term) Term
		upd = func(a Term, ix []Term) Term {
			if len(ix) == 0 {
				return leaf
			}
			return sStore(a, ix[0], upd(sSel(a, ix[0]), ix[1:]))
		}
		vc.set(st, l.Key, l.Sort, upd(cur, l.Idx))
	}
	return nil
}

// frameObligations: everything the function changed must be covered by its modifies clauses.
// The universally quantified statement "cells outside the frame are unchanged" is checked in
// skolemised form (one fresh index constant per dimension), so the query is quantifier free.
// frameAllowed evaluates the contract's modifies clauses (in the entry state).
func (fr *Frame) frameAllowed(c *Contract) (allowed []locRef, all bool, err error) {
	for _, m := range c.Modifies {
		locs, err := fr.resolveLoc(m, fr.fn.Pkg.Pkg, nil, fr.entry, fr.entry)
		if err != nil {
			return nil, false, fmt.Errorf("%s:%d: modifies %s: %v", c.File, c.Line, m, err)
		}
		for _, l := range locs {
			if l.All {
				return nil, true, nil
			}
		}
		allowed = append(allowed, locs...)
	}
	return fr.vc.withChanLast(allowed), false, nil
}

// frameGoal: "cell F[idx...] is in the frame or has its entry value", for index terms idx.
func (fr *Frame) frameGoal(k string, cur Term, idx []Term, allowed []locRef) Term {
	vc := fr.vc
	srt := vc.famSort[k]
	entry := vc.famName(k, 0)
	vc.declare(entry, srt)
	a, b := cur, entry
	for _, r := range idx {
		a, b = sSel(a, r), sSel(b, r)
	}
	alts := []Term{sEq(a, b)}
	for _, l := range allowed {
		if l.AllGhost && strings.HasPrefix(k, "ghost.") {
			return "true"
		}
		if l.Key != k {
			continue
		}
		if l.ElemArr != "" {
			if len(idx) > 0 {
				alts = append(alts, vc.isElemOf(idx[0], l.ElemArr, l.ElemT))
			}
			continue
		}
		var eqs []Term
		for i, ix := range l.Idx {
			eqs = append(eqs, sEq(idx[i], ix))
		}
		alts = append(alts, sAnd(eqs...))
	}
	if len(idx) > 0 {
		for _, al := range vc.allocs {
			alts = append(alts, sEq(idx[0], al.ref))
		}
		// objects that did not exist on entry are invisible to the caller
		a0 := vc.famName(allocKey, 0)
		vc.declare(a0, allocSort)
		alts = append(alts, sNot(sSel(a0, idx[0])))
	}
	return sOr(alts...)
}

func (fr *Frame) frameSkip(k string, ghostOnly bool) bool {
	if k == allocKey || k == "ghost.rangeit" {
		return true
	}
	if ghostOnly && !strings.HasPrefix(k, "ghost.") {
		return true
	}
	return strings.HasPrefix(k, "S.") || strings.HasPrefix(k, "GI.")
}

// loopFrame: at a loop cut the havocked families keep, outside the function's frame, the
// values they had on function entry. Checked on loop entry and on every back edge
// (skolemised), assumed (quantified) for the arbitrary iteration.
func (fr *Frame) loopFrameCheck(st *State, keys []string, kind, name string, pos token.Pos) {
	vc := fr.vc
	c := vc.contract
	if c == nil || fr.parent != nil && false {
		return
	}
	allowed, all, err := fr.rootFrame().frameAllowed(c)
	if err != nil || all {
		return
	}
	ghostOnly := c.Flags["havoc"] != ""
	for _, k := range keys {
		if fr.frameSkip(k, ghostOnly) {
			continue
		}
		srt := vc.famSort[k]
		cur := vc.get(st, k, srt)
		if cur == vc.famName(k, 0) {
			continue
		}
		dims, _ := sortDims(srt)
		var sk []Term
		for i := 0; i < dims; i++ {
			sk = append(sk, vc.fresh("frame.r", "Int"))
		}
		goal := fr.rootFrame().frameGoal(k, cur, sk, allowed)
		if fr.dry > 0 {
			continue
		}
		if dims >= 2 {
			vc.obligeHinted(st, kind, name+":"+k, goal, sk[1:], pos, "modifies "+strings.Join(c.Modifies, ", "))
		} else {
			vc.oblige(st, kind, name+":"+k, goal, pos, "modifies "+strings.Join(c.Modifies, ", "))
		}
	}
}

func (fr *Frame) loopFrameAssume(st *State, keys []string) {
	vc := fr.vc
	c := vc.contract
	if c == nil {
		return
	}
	allowed, all, err := fr.rootFrame().frameAllowed(c)
	if err != nil || all {
		return
	}
	ghostOnly := c.Flags["havoc"] != ""
	for _, k := range keys {
		if fr.frameSkip(k, ghostOnly) {
			continue
		}
		srt := vc.famSort[k]
		cur := vc.get(st, k, srt)
		dims, _ := sortDims(srt)
		if dims == 0 {
			g := fr.rootFrame().frameGoal(k, cur, nil, allowed)
			vc.assume(st, g)
			continue
		}
		var qs []Term
		var decl []string
		for i := 0; i < dims; i++ {
			vc.nfresh++
			q := sym(fmt.Sprintf("fr!q%d", vc.nfresh))
			qs = append(qs, q)
			decl = append(decl, "("+q+" Int)")
		}
		g := fr.rootFrame().frameGoal(k, cur, qs, allowed)
		vc.assume(st, "(forall ("+strings.Join(decl, " ")+") "+g+")")
	}
}

func (fr *Frame) rootFrame() *Frame {
	r := fr
	for r.parent != nil {
		r = r.parent
	}
	return r
}

func (fr *Frame) frameObligations(c *Contract, exit *State, kind string) error {
	vc := fr.vc
	// "havoc": the function may change any ordinary memory (it calls unknown code), but the
	// ghost state it changes must still be listed: callers keep ghost state across the call.
	ghostOnly := c.Flags["havoc"] != ""
	allowed, all, err := fr.frameAllowed(c)
	if err != nil {
		return err
	}
	if all {
		return nil
	}
	if exit.gepoch != 0 {
		okg := false
		for _, l := range allowed {
			if l.AllGhost {
				okg = true
			}
		}
		if !okg {
			vc.oblige(exit, kind, "callee_changes_all_ghost_state_but_contract_does_not_say_ghost.*", "false", fr.fn.Pos(), "")
		}
	}
	if exit.epoch != 0 && !ghostOnly {
		// unknown code ran: the frame cannot be established
		vc.oblige(exit, kind, "unknown_code_ran_but_contract_does_not_say_havoc", "false", fr.fn.Pos(), "")
		return nil
	}
	keys := make([]string, 0, len(exit.heap))
	for k := range exit.heap {
		keys = append(keys, k)
	}
	sortStrings(keys)
	for _, k := range keys {
		srt := vc.famSort[k]
		entry := vc.famName(k, 0)
		if exit.heap[k] == entry {
			continue
		}
		if fr.frameSkip(k, ghostOnly) {
			continue
		}
		vc.declare(entry, srt)
		dims, _ := sortDims(srt)
		var sk []Term
		for i := 0; i < dims; i++ {
			sk = append(sk, vc.fresh("frame.r", "Int"))
		}
		a, b := exit.heap[k], entry
		for _, r := range sk {
			a, b = sSel(a, r), sSel(b, r)
		}
		var alts []Term
		alts = append(alts, sEq(a, b))
		ghostFree := false
		for _, l := range allowed {
			if l.AllGhost && strings.HasPrefix(k, "ghost.") {
				ghostFree = true
			}
		}
		if ghostFree {
			continue
		}
		for _, l := range allowed {
			if l.Key != k {
				continue
			}
			if l.ElemArr != "" {
				if dims > 0 {
					alts = append(alts, vc.isElemOf(sk[0], l.ElemArr, l.ElemT))
				}
				continue
			}
			var eqs []Term
			for i, ix := range l.Idx {
				eqs = append(eqs, sEq(sk[i], ix))
			}
			alts = append(alts, sAnd(eqs...))
		}
		// objects allocated by this activation are invisible to the caller
		if dims > 0 {
			for _, al := range vc.allocs {
				alts = append(alts, sEq(sk[0], al.ref))
			}
			a0 := vc.famName(allocKey, 0)
			vc.declare(a0, allocSort)
			alts = append(alts, sNot(sSel(a0, sk[0])))
		}
		if dims >= 2 && fr.dry == 0 {
			// element memory: the universal facts about copies and appends are instantiated at the cell asked about
			vc.obligeHinted(exit, kind, k, sOr(alts...), sk[1:], fr.fn.Pos(), "modifies "+strings.Join(c.Modifies, ", "))
		} else {
			vc.oblige(exit, kind, k, sOr(alts...), fr.fn.Pos(), "modifies "+strings.Join(c.Modifies, ", "))
		}
	}
	return nil
}

func sortStrings(s []string) {
	for i := 1; i < len(s); i++ {
		for j := i; j > 0 && s[j] < s[j-1]; j-- {
			s[j], s[j-1] = s[j-1], s[j]
		}
	}
}

// evalTypeExpr resolves a type written in a contract. Package scope knows no imports (they are
// file scoped), so a qualified name such as *sync.Map is resolved in a scratch scope that binds the
// names of the packages this package imports.
func evalTypeExpr(fset *token.FileSet, pkg *types.Package, expr string) (types.TypeAndValue, error) {
	tv, err := types.Eval(fset, pkg, token.NoPos, expr)
	if err == nil && tv.Type != nil {
		return tv, nil
	}
	scratch := types.NewPackage(pkg.Path(), pkg.Name())
	sc := scratch.Scope()
	for _, n := range pkg.Scope().Names() {
		sc.Insert(pkg.Scope().Lookup(n))
	}
	for _, imp := range pkg.Imports() {
		if sc.Lookup(imp.Name()) == nil {
			sc.Insert(types.NewPkgName(token.NoPos, scratch, imp.Name(), imp))
		}
	}
	return types.Eval(fset, scratch, token.NoPos, expr)
}
