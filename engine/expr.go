package main

// Contract expressions: Go expression syntax (go/parser) plus  ==>, old(),
// forall/exists, ghost.<name>, spec function calls.

import (
	"fmt"
	"go/ast"
	"go/constant"
	"go/parser"
	"go/token"
	"go/types"
	"strconv"
	"strings"

	"golang.org/x/tools/go/ssa"
)

var tUntypedInt = types.Typ[types.UntypedInt]
var tBool = types.Typ[types.Bool]
var tReal = types.Typ[types.UntypedFloat]

// desugar  a ==> b  into implies(a, b), recursively inside brackets
func desugar(s string) string {
	// find top-level ==>
	d := 0
	for i := 0; i+2 < len(s); i++ {
		switch s[i] {
		case '(', '[', '{':
			d++
		case ')', ']', '}':
			d--
		case '"':
			j := i + 1
			for j < len(s) && s[j] != '"' {
				if s[j] == '\\' {
					j++
				}
				j++
			}
			i = j
		case '\'':
			j := i + 1
			for j < len(s) && s[j] != '\'' {
				if s[j] == '\\' {
					j++
				}
				j++
			}
			i = j
		case '=':
			if d == 0 && strings.HasPrefix(s[i:], "==>") {
				return "implies(" + desugar(s[:i]) + ", " + desugar(s[i+3:]) + ")"
			}
		}
	}
	if !strings.Contains(s, "==>") {
		return s
	}
	// recurse into bracket groups
	var sb strings.Builder
	i := 0
	for i < len(s) {
		c := s[i]
		if c == '(' || c == '[' {
			// find matching
			d := 0
			j := i
			for ; j < len(s); j++ {
				if s[j] == '(' || s[j] == '[' || s[j] == '{' {
					d++
				} else if s[j] == ')' || s[j] == ']' || s[j] == '}' {
					d--
					if d == 0 {
						break
					}
				}
			}
			inner := s[i+1 : j]
			parts := splitTop(inner, ',')
			for k := range parts {
				parts[k] = desugar(parts[k])
			}
			sb.WriteByte(c)
			sb.WriteString(strings.Join(parts, ","))
			if j < len(s) {
				sb.WriteByte(s[j])
			}
			i = j + 1
			continue
		}
		sb.WriteByte(c)
		i++
	}
	return sb.String()
}

var exprCache = map[string]ast.Expr{}

func parseContractExpr(text string) (ast.Expr, error) {
	if e, ok := exprCache[text]; ok {
		return e, nil
	}
	e, err := parser.ParseExpr(desugar(text))
	if err != nil {
		return nil, fmt.Errorf("parse %q: %v", text, err)
	}
	exprCache[text] = e
	return e, nil
}

type evalCtx struct {
	vc     *VC
	fr     *Frame
	pkg    *types.Package
	lookup func(name string, cur *State) (bound, bool)
	cur    *State
	old    *State
	qvars  map[string]bound
}

// ---------------------------------------------------------------------
// entry points

func (fr *Frame) frameLookup(extra map[string]bound) func(string, *State) (bound, bool) {
	return func(name string, cur *State) (bound, bool) {
		if extra != nil {
			if b, ok := extra[name]; ok {
				return b, true
			}
		}
		if b, ok := fr.lets[name]; ok {
			return b, true
		}
		for _, p := range fr.fn.Params {
			if p.Name() == name {
				// a parameter whose address is taken lives in a cell; the name means the entry value
				return bound{fr.val(p), p.Type()}, true
			}
		}
		for _, p := range fr.fn.FreeVars {
			if p.Name() == name {
				pt := p.Type().(*types.Pointer).Elem()
				return bound{fr.vc.load(cur, fr.val(p), pt), pt}, true
			}
		}
		if a, ok := fr.names["&"+name]; ok {
			if _, have := fr.vals[a]; have {
				pt := a.Type().(*types.Pointer).Elem()
				return bound{fr.vc.load(cur, fr.val(a), pt), pt}, true
			}
		}
		// phi of the innermost enclosing loop first
		var cands []*ssa.Phi
		for _, b := range fr.fn.Blocks {
			for _, in := range b.Instrs {
				phi, ok := in.(*ssa.Phi)
				if !ok {
					break
				}
				if phi.Comment == name {
					if _, have := fr.vals[phi]; have {
						cands = append(cands, phi)
					}
				}
			}
		}
		if fr.curLoop != nil {
			for _, phi := range cands {
				if phi.Block() == fr.curLoop.header {
					return bound{fr.vals[phi], phi.Type()}, true
				}
			}
		}
		if v, ok := fr.names[name]; ok && !fr.ambig[name] {
			if _, have := fr.vals[v]; have {
				return bound{fr.val(v), v.Type()}, true
			}
			if _, isC := v.(*ssa.Const); isC {
				return bound{fr.val(v), v.Type()}, true
			}
		}
		if len(cands) == 1 {
			return bound{fr.vals[cands[0]], cands[0].Type()}, true
		}
		if len(cands) > 1 {
			// prefer loop-header phis
			for _, phi := range cands {
				if fr.loops[phi.Block()] != nil {
					return bound{fr.vals[phi], phi.Type()}, true
				}
			}
		}
		return bound{}, false
	}
}

func (fr *Frame) evalExprText(text string, cur, old *State, extra map[string]bound) (Value, types.Type, error) {
	e, err := parseContractExpr(text)
	if err != nil {
		return Value{}, nil, err
	}
	ec := &evalCtx{vc: fr.vc, fr: fr, pkg: fr.fn.Pkg.Pkg, lookup: fr.frameLookup(extra), cur: cur, old: old, qvars: map[string]bound{}}
	return ec.evalSafe(e)
}

func (fr *Frame) evalClause(cl *Clause, cur, old *State, extra map[string]bound) (Term, error) {
	v, t, err := fr.evalExprText(cl.Text, cur, old, extra)
	if err != nil {
		return "", err
	}
	if !isBoolT(t) || len(v.C) != 1 {
		return "", fmt.Errorf("clause is not boolean: %s", cl.Text)
	}
	return v.C[0], nil
}

func (fr *Frame) evalIn(text string, pkg *types.Package, env map[string]bound, cur, old *State, extra map[string]bound) (Value, types.Type, error) {
	e, err := parseContractExpr(text)
	if err != nil {
		return Value{}, nil, err
	}
	lookup := func(name string, _ *State) (bound, bool) {
		if extra != nil {
			if b, ok := extra[name]; ok {
				return b, true
			}
		}
		b, ok := env[name]
		return b, ok
	}
	ec := &evalCtx{vc: fr.vc, fr: fr, pkg: pkg, lookup: lookup, cur: cur, old: old, qvars: map[string]bound{}}
	return ec.evalSafe(e)
}

type evalErr struct{ msg string }

func (ec *evalCtx) fail(format string, a ...interface{}) {
	panic(evalErr{fmt.Sprintf(format, a...)})
}

func (ec *evalCtx) evalSafe(e ast.Expr) (v Value, t types.Type, err error) {
	defer func() {
		if r := recover(); r != nil {
			if ee, ok := r.(evalErr); ok {
				err = fmt.Errorf("%s", ee.msg)
				return
			}
			panic(r)
		}
	}()
	v, t = ec.eval(e)
	return
}

// ---------------------------------------------------------------------

func (ec *evalCtx) eval(e ast.Expr) (Value, types.Type) {
	vc := ec.vc
	switch x := e.(type) {
	case *ast.ParenExpr:
		return ec.eval(x.X)
	case *ast.BasicLit:
		switch x.Kind {
		case token.INT:
			c := constant.MakeFromLiteral(x.Value, token.INT, 0)
			v, _ := constTerm(c, tUntypedInt)
			return v, tUntypedInt
		case token.CHAR:
			c := constant.MakeFromLiteral(x.Value, token.CHAR, 0)
			v, _ := constTerm(c, tUntypedInt)
			return v, tUntypedInt
		case token.FLOAT:
			c := constant.MakeFromLiteral(x.Value, token.FLOAT, 0)
			v, ok := constTerm(c, tReal)
			if !ok {
				ec.fail("float literal %s", x.Value)
			}
			return v, tReal
		case token.STRING:
			s, _ := strconv.Unquote(x.Value)
			return vc.strLit(s), types.Typ[types.String]
		}
	case *ast.Ident:
		return ec.evalIdent(x)
	case *ast.UnaryExpr:
		switch x.Op {
		case token.NOT:
			v, _ := ec.eval(x.X)
			return Value{C: []Term{sNot(v.C[0])}}, tBool
		case token.SUB:
			v, t := ec.eval(x.X)
			if isFloat(t) || t == tReal {
				return Value{C: []Term{"(- " + v.C[0] + ")"}}, t
			}
			return Value{C: []Term{iNeg(v.C[0])}}, t
		case token.AND:
			p, _ := ec.evalAddr(x.X)
			return p, types.NewPointer(types.Typ[types.Int])
		}
	case *ast.StarExpr:
		p, pt := ec.eval(x.X)
		ptr, ok := pt.Underlying().(*types.Pointer)
		if !ok {
			ec.fail("dereference of non-pointer %s", types.ExprString(x.X))
		}
		return vc.load(ec.cur, p, ptr.Elem()), ptr.Elem()
	case *ast.BinaryExpr:
		return ec.evalBinary(x)
	case *ast.SelectorExpr:
		return ec.evalSelector(x)
	case *ast.IndexExpr:
		return ec.evalIndex(x)
	case *ast.SliceExpr:
		v, t := ec.eval(x.X)
		lo, hi := Term("0"), Term("")
		if x.Low != nil {
			l, _ := ec.eval(x.Low)
			lo = l.C[0]
		}
		if x.High != nil {
			h, _ := ec.eval(x.High)
			hi = h.C[0]
		} else {
			hi = v.C[2]
		}
		if isStringT(t) {
			return Value{C: []Term{v.C[0], iAdd(v.C[1], lo), iSub(hi, lo)}}, t
		}
		if _, ok := t.Underlying().(*types.Slice); ok {
			return Value{C: []Term{v.C[0], iAdd(v.C[1], lo), iSub(hi, lo), iSub(v.C[3], lo)}}, t
		}
		ec.fail("slice expression on %s", t)
	case *ast.CallExpr:
		return ec.evalCall(x)
	}
	ec.fail("unsupported expression %s", types.ExprString(e))
	return Value{}, nil
}

func (ec *evalCtx) evalIdent(x *ast.Ident) (Value, types.Type) {
	switch x.Name {
	case "true":
		return Value{C: []Term{"true"}}, tBool
	case "false":
		return Value{C: []Term{"false"}}, tBool
	case "nil":
		return Value{C: []Term{"0"}}, types.Typ[types.UntypedNil]
	}
	if b, ok := ec.qvars[x.Name]; ok {
		return b.v, b.t
	}
	if b, ok := ec.lookup(x.Name, ec.cur); ok {
		return b.v, b.t
	}
	// package-level object
	if ec.pkg != nil {
		if obj := ec.pkg.Scope().Lookup(x.Name); obj != nil {
			return ec.pkgObject(obj)
		}
	}
	if obj := types.Universe.Lookup(x.Name); obj != nil {
		if c, ok := obj.(*types.Const); ok {
			v, _ := constTerm(c.Val(), c.Type())
			return v, c.Type()
		}
	}
	ec.fail("unknown identifier %q", x.Name)
	return Value{}, nil
}

func (ec *evalCtx) pkgObject(obj types.Object) (Value, types.Type) {
	vc := ec.vc
	switch o := obj.(type) {
	case *types.Const:
		if isStringT(o.Type()) {
			return vc.strLit(constant.StringVal(o.Val())), o.Type()
		}
		v, ok := constTerm(o.Val(), o.Type())
		if !ok {
			ec.fail("constant %s", o.Name())
		}
		return v, o.Type()
	case *types.Var:
		sp := vc.eng.prog.Package(o.Pkg())
		if sp == nil {
			ec.fail("no ssa package for %s", o.Pkg().Path())
		}
		g, ok := sp.Members[o.Name()].(*ssa.Global)
		if !ok {
			ec.fail("%s is not a global", o.Name())
		}
		p := ec.fr.val(g)
		return vc.load(ec.cur, p, o.Type()), o.Type()
	case *types.Func:
		sp := vc.eng.prog.Package(o.Pkg())
		if sp != nil {
			if f := sp.Func(o.Name()); f != nil {
				return Value{C: []Term{vc.funcRef(f)}}, o.Type()
			}
		}
	}
	ec.fail("unsupported package object %s", obj)
	return Value{}, nil
}

func isNilT(t types.Type) bool {
	b, ok := t.(*types.Basic)
	return ok && b.Kind() == types.UntypedNil
}

func isNumericT(t types.Type) bool {
	if t == nil {
		return false
	}
	b, ok := t.Underlying().(*types.Basic)
	return ok && b.Info()&(types.IsInteger|types.IsFloat) != 0
}

func (ec *evalCtx) evalBinary(x *ast.BinaryExpr) (Value, types.Type) {
	vc := ec.vc
	switch x.Op {
	case token.LAND:
		a, _ := ec.eval(x.X)
		b, _ := ec.eval(x.Y)
		return Value{C: []Term{sAnd(a.C[0], b.C[0])}}, tBool
	case token.LOR:
		a, _ := ec.eval(x.X)
		b, _ := ec.eval(x.Y)
		return Value{C: []Term{sOr(a.C[0], b.C[0])}}, tBool
	}
	a, at := ec.eval(x.X)
	b, bt := ec.eval(x.Y)
	// int/real coercion
	aReal := isFloat(at) || at == tReal
	bReal := isFloat(bt) || bt == tReal
	if aReal && !bReal && isNumericT(bt) {
		b = Value{C: []Term{toReal(b.C[0])}}
		bt = at
	}
	if bReal && !aReal && isNumericT(at) {
		a = Value{C: []Term{toReal(a.C[0])}}
		at = bt
	}
	switch x.Op {
	case token.EQL, token.NEQ:
		var eq Term
		switch {
		case isNilT(bt):
			eq = sEq(a.C[0], "0")
		case isNilT(at):
			eq = sEq(b.C[0], "0")
		default:
			eq = vc.valuesEqual(a, b, at, bt)
		}
		if x.Op == token.NEQ {
			eq = sNot(eq)
		}
		return Value{C: []Term{eq}}, tBool
	case token.LSS, token.LEQ, token.GTR, token.GEQ:
		return Value{C: []Term{"(" + cmpOp(x.Op) + " " + a.C[0] + " " + b.C[0] + ")"}}, tBool
	}
	rt := at
	if at == tUntypedInt || isNilT(at) {
		rt = bt
	}
	if aReal || bReal {
		var op string
		switch x.Op {
		case token.ADD:
			op = "+"
		case token.SUB:
			op = "-"
		case token.MUL:
			op = "*"
		case token.QUO:
			op = "/"
		default:
			ec.fail("real operator %s", x.Op)
		}
		return Value{C: []Term{"(" + op + " " + a.C[0] + " " + b.C[0] + ")"}}, rt
	}
	switch x.Op {
	case token.ADD:
		return Value{C: []Term{iAdd(a.C[0], b.C[0])}}, rt
	case token.SUB:
		return Value{C: []Term{iSub(a.C[0], b.C[0])}}, rt
	case token.MUL:
		return Value{C: []Term{iMul(a.C[0], b.C[0])}}, rt
	case token.QUO:
		return Value{C: []Term{tdiv(a.C[0], b.C[0], false)}}, rt
	case token.REM:
		return Value{C: []Term{trem(a.C[0], b.C[0], false)}}, rt
	case token.SHR:
		if k, ok := isSmallConst(b.C[0]); ok && k >= 0 && k < 64 {
			return Value{C: []Term{"(div " + a.C[0] + " " + pow2[k] + ")"}}, rt
		}
	case token.SHL:
		if k, ok := isSmallConst(b.C[0]); ok && k >= 0 && k < 64 {
			return Value{C: []Term{iMul(a.C[0], pow2[k])}}, rt
		}
	case token.AND:
		if m, ok := isBigConst(b.C[0]); ok && m.Sign() >= 0 {
			return Value{C: []Term{andConst(a.C[0], m)}}, rt
		}
	}
	ec.fail("unsupported operator %s", x.Op)
	return Value{}, nil
}

func toReal(t Term) Term {
	if _, ok := isBigConst(t); ok {
		if strings.HasPrefix(t, "(- ") {
			return "(- " + t[3:len(t)-1] + ".0)"
		}
		return t + ".0"
	}
	return "(to_real " + t + ")"
}

// evalAddr returns a pointer to the location denoted by e.
func (ec *evalCtx) evalAddr(e ast.Expr) (Value, types.Type) {
	vc := ec.vc
	switch x := e.(type) {
	case *ast.ParenExpr:
		return ec.evalAddr(x.X)
	case *ast.StarExpr:
		p, pt := ec.eval(x.X)
		ptr, ok := pt.Underlying().(*types.Pointer)
		if !ok {
			ec.fail("dereference of non-pointer")
		}
		return p, ptr.Elem()
	case *ast.SelectorExpr:
		if id, ok := x.X.(*ast.Ident); ok && ec.isPkgName(id.Name) {
			break
		}
		// base: pointer or addressable struct
		var base Value
		var st types.Type
		bv, bt := ec.tryEvalPtrBase(x.X)
		base, st = bv, bt
		if st == nil {
			break
		}
		obj, path, _ := types.LookupFieldOrMethod(st, true, ec.pkg, x.Sel.Name)
		if obj == nil {
			// unexported field of another package
			obj, path, _ = types.LookupFieldOrMethod(st, true, pkgOfType(st), x.Sel.Name)
		}
		fv, ok := obj.(*types.Var)
		if !ok || !fv.IsField() {
			ec.fail("no field %s in %s", x.Sel.Name, st)
		}
		cur := base
		ct := st
		for _, idx := range path {
			if p, isP := ct.Underlying().(*types.Pointer); isP {
				// embedded pointer: load it
				cur = vc.load(ec.cur, cur, ct)
				ct = p.Elem()
			}
			s, _ := isStruct(ct)
			cur = vc.fieldPtr(cur, ct, idx)
			ct = s.Field(idx).Type()
		}
		return cur, ct
	case *ast.IndexExpr:
		v, t := ec.eval(x.X)
		i, _ := ec.eval(x.Index)
		switch u := t.Underlying().(type) {
		case *types.Slice:
			return vc.elemPtr(v.C[0], iAdd(v.C[1], i.C[0]), u.Elem()), u.Elem()
		case *types.Pointer:
			if at, ok := u.Elem().Underlying().(*types.Array); ok {
				return vc.elemPtr(v.C[0], i.C[0], at.Elem()), at.Elem()
			}
		}
	case *ast.Ident:
		// address-taken local or global
		if ec.fr != nil {
			if a, ok := ec.fr.names["&"+x.Name]; ok {
				return ec.fr.val(a), a.Type().(*types.Pointer).Elem()
			}
		}
		if ec.pkg != nil {
			if obj, ok := ec.pkg.Scope().Lookup(x.Name).(*types.Var); ok {
				sp := vc.eng.prog.Package(obj.Pkg())
				if g, ok := sp.Members[obj.Name()].(*ssa.Global); ok {
					return ec.fr.val(g), obj.Type()
				}
			}
		}
	}
	ec.fail("expression is not addressable in contracts: %s", types.ExprString(e))
	return Value{}, nil
}

func pkgOfType(t types.Type) *types.Package {
	if n := namedOf(t); n != nil {
		return n.Obj().Pkg()
	}
	return nil
}

func (ec *evalCtx) isPkgName(name string) bool {
	if name == "ghost" {
		return true
	}
	if _, ok := ec.qvars[name]; ok {
		return false
	}
	if _, ok := ec.lookup(name, ec.cur); ok {
		return false
	}
	if ec.pkg == nil {
		return false
	}
	for _, imp := range ec.pkg.Imports() {
		if imp.Name() == name {
			return true
		}
	}
	return false
}

// tryEvalPtrBase: for x in x.f — returns a pointer to the struct and the struct type.
func (ec *evalCtx) tryEvalPtrBase(e ast.Expr) (Value, types.Type) {
	// if e itself is addressable as a struct location (x.f where f is a struct field), use its address
	switch y := e.(type) {
	case *ast.SelectorExpr, *ast.IndexExpr, *ast.StarExpr:
		func() {
			defer func() { recover() }()
			_ = y
		}()
		var p Value
		var t types.Type
		ok := func() (ok bool) {
			defer func() {
				if r := recover(); r != nil {
					if _, is := r.(evalErr); is {
						ok = false
						return
					}
					panic(r)
				}
			}()
			p, t = ec.evalAddr(e)
			return true
		}()
		if ok {
			if _, isS := isStruct(t); isS {
				return p, t
			}
			if pt, isP := t.Underlying().(*types.Pointer); isP {
				v := ec.vc.load(ec.cur, p, t)
				return v, pt.Elem()
			}
		}
	}
	v, t := ec.eval(e)
	if pt, ok := t.Underlying().(*types.Pointer); ok {
		return v, pt.Elem()
	}
	return Value{}, nil
}

func (ec *evalCtx) evalSelector(x *ast.SelectorExpr) (Value, types.Type) {
	vc := ec.vc
	if id, ok := x.X.(*ast.Ident); ok {
		if id.Name == "ghost" {
			g, ok := vc.eng.cs.Ghosts[x.Sel.Name]
			if !ok {
				ec.fail("undeclared ghost %s", x.Sel.Name)
			}
			if g.GoType != "" {
				gt := vc.eng.ghostGoType(g)
				if gt == nil {
					ec.fail("ghost %s: cannot resolve type %s", g.Name, g.GoType)
				}
				cs := comps(gt)
				out := Value{C: make([]Term, len(cs))}
				for i, c := range cs {
					out.C[i] = vc.get(ec.cur, "ghost."+g.Name+c.Suffix, c.Sort)
				}
				return out, gt
			}
			t := vc.get(ec.cur, "ghost."+g.Name, g.Sort)
			return Value{C: []Term{t}}, ghostType(g.Sort)
		}
		if ec.isPkgName(id.Name) {
			for _, imp := range ec.pkg.Imports() {
				if imp.Name() == id.Name {
					obj := imp.Scope().Lookup(x.Sel.Name)
					if obj == nil {
						ec.fail("%s.%s not found", id.Name, x.Sel.Name)
					}
					return ec.pkgObject(obj)
				}
			}
		}
	}
	// struct value (non-addressable) selection
	bv, bt := ec.tryEvalPtrBase(x.X)
	if bt != nil {
		_ = bv
		p, t := ec.evalAddr(x)
		return vc.load(ec.cur, p, t), t
	}
	v, t := ec.eval(x.X)
	if s, ok := isStruct(t); ok {
		for i := 0; i < s.NumFields(); i++ {
			if s.Field(i).Name() == x.Sel.Name {
				lo, hi := fieldRange(s, i)
				return Value{C: v.C[lo:hi]}, s.Field(i).Type()
			}
		}
	}
	ec.fail("cannot select %s from %s", x.Sel.Name, t)
	return Value{}, nil
}

type ghostArr struct{ types.Type }

func ghostType(sort string) types.Type {
	switch sort {
	case "Int":
		return tUntypedInt
	case "Bool":
		return tBool
	case "Real":
		return tReal
	}
	return types.NewMap(types.Typ[types.Int], types.Typ[types.Int]) // array sorts: index with [..]
}

func (ec *evalCtx) evalIndex(x *ast.IndexExpr) (Value, types.Type) {
	vc := ec.vc
	// ghost array
	if sel, ok := x.X.(*ast.SelectorExpr); ok {
		if id, ok := sel.X.(*ast.Ident); ok && id.Name == "ghost" {
			g, ok := vc.eng.cs.Ghosts[sel.Sel.Name]
			if !ok {
				ec.fail("undeclared ghost %s", sel.Sel.Name)
			}
			a := vc.get(ec.cur, "ghost."+g.Name, g.Sort)
			i, _ := ec.eval(x.Index)
			inner := strings.TrimSuffix(strings.TrimPrefix(g.Sort, "(Array Int "), ")")
			return Value{C: []Term{sSel(a, i.C[0])}}, ghostType(inner)
		}
	}
	v, t := ec.eval(x.X)
	i, _ := ec.eval(x.Index)
	switch u := t.Underlying().(type) {
	case *types.Slice:
		p := vc.elemPtr(v.C[0], iAdd(v.C[1], i.C[0]), u.Elem())
		return vc.load(ec.cur, p, u.Elem()), u.Elem()
	case *types.Basic:
		if isStringT(t) {
			m := vc.get(ec.cur, "S.byte", "(Array Int (Array Int Int))")
			return Value{C: []Term{sSel(sSel(m, v.C[0]), iAdd(v.C[1], i.C[0]))}}, types.Typ[types.Uint8]
		}
	case *types.Array:
		cs := comps(u.Elem())
		out := Value{C: make([]Term, len(cs))}
		for k := range cs {
			out.C[k] = sSel(v.C[k], i.C[0])
		}
		return out, u.Elem()
	case *types.Pointer:
		if at, ok := u.Elem().Underlying().(*types.Array); ok {
			p := vc.elemPtr(v.C[0], i.C[0], at.Elem())
			return vc.load(ec.cur, p, at.Elem()), at.Elem()
		}
	case *types.Map:
		kt, ok := mapKeyTerm(vc, i, u.Key())
		if !ok {
			ec.fail("map key type not modelled")
		}
		fam := mapFam(t)
		cs := comps(u.Elem())
		out := Value{C: make([]Term, len(cs))}
		for k, c := range cs {
			a := vc.get(ec.cur, fam+".val"+c.Suffix, "(Array Int (Array Int "+c.Sort+"))")
			out.C[k] = sSel(sSel(a, v.C[0]), kt)
		}
		return out, u.Elem()
	}
	ec.fail("cannot index %s", t)
	return Value{}, nil
}

func (ec *evalCtx) evalCall(x *ast.CallExpr) (Value, types.Type) {
	vc := ec.vc
	name := ""
	switch f := x.Fun.(type) {
	case *ast.Ident:
		name = f.Name
	case *ast.SelectorExpr:
		if id, ok := f.X.(*ast.Ident); ok {
			name = id.Name + "." + f.Sel.Name
		}
	}
	arg := func(i int) (Value, types.Type) {
		if i >= len(x.Args) {
			ec.fail("%s: missing argument %d", name, i)
		}
		return ec.eval(x.Args[i])
	}
	switch name {
	case "old":
		if ec.old == nil {
			ec.fail("old() not available here")
		}
		saved := ec.cur
		ec.cur = ec.old
		v, t := arg(0)
		ec.cur = saved
		return v, t
	case "implies":
		a, _ := arg(0)
		b, _ := arg(1)
		return Value{C: []Term{sImp(a.C[0], b.C[0])}}, tBool
	case "iff":
		a, _ := arg(0)
		b, _ := arg(1)
		return Value{C: []Term{sEq(a.C[0], b.C[0])}}, tBool
	case "ite":
		c, _ := arg(0)
		a, at := arg(1)
		b, _ := arg(2)
		out := Value{C: make([]Term, len(a.C))}
		for i := range a.C {
			out.C[i] = sIte(c.C[0], a.C[i], b.C[i])
		}
		return out, at
	case "len":
		v, t := arg(0)
		switch u := t.Underlying().(type) {
		case *types.Slice, *types.Basic:
			return Value{C: []Term{v.C[2]}}, types.Typ[types.Int]
		case *types.Array:
			return Value{C: []Term{sInt(u.Len())}}, types.Typ[types.Int]
		case *types.Map:
			cn := vc.get(ec.cur, mapFam(t)+".count", "(Array Int Int)")
			return Value{C: []Term{sIte(sEq(v.C[0], "0"), "0", sSel(cn, v.C[0]))}}, types.Typ[types.Int]
		case *types.Chan:
			a := vc.get(ec.cur, "ghost.chanlen", "(Array Int Int)")
			return Value{C: []Term{sSel(a, v.C[0])}}, types.Typ[types.Int]
		}
		ec.fail("len of %s", t)
	case "cap":
		v, t := arg(0)
		switch t.Underlying().(type) {
		case *types.Slice:
			return Value{C: []Term{v.C[3]}}, types.Typ[types.Int]
		case *types.Chan:
			a := vc.get(ec.cur, "ghost.chancap", "(Array Int Int)")
			return Value{C: []Term{sSel(a, v.C[0])}}, types.Typ[types.Int]
		}
		ec.fail("cap of %s", t)
	case "forall", "exists":
		// forall(i, lo, hi, body)
		id, ok := x.Args[0].(*ast.Ident)
		if !ok || len(x.Args) != 4 {
			ec.fail("%s(i, lo, hi, body)", name)
		}
		lo, _ := arg(1)
		hi, _ := arg(2)
		vc.nfresh++
		qn := sym(fmt.Sprintf("%s!q%d", id.Name, vc.nfresh))
		saved, had := ec.qvars[id.Name]
		ec.qvars[id.Name] = bound{Value{C: []Term{qn}}, types.Typ[types.Int]}
		body, _ := arg(3)
		if had {
			ec.qvars[id.Name] = saved
		} else {
			delete(ec.qvars, id.Name)
		}
		rng := sAnd("(<= "+lo.C[0]+" "+qn+")", "(< "+qn+" "+hi.C[0]+")")
		if name == "forall" {
			return Value{C: []Term{"(forall ((" + qn + " Int)) " + sImp(rng, body.C[0]) + ")"}}, tBool
		}
		return Value{C: []Term{"(exists ((" + qn + " Int)) " + sAnd(rng, body.C[0]) + ")"}}, tBool
	case "same":
		a, _ := arg(0)
		b, _ := arg(1)
		if len(a.C) != len(b.C) {
			ec.fail("same(): values of different shape")
		}
		var eqs []Term
		for i := range a.C {
			eqs = append(eqs, sEq(a.C[i], b.C[i]))
		}
		return Value{C: []Term{sAnd(eqs...)}}, tBool
	case "typeof":
		v, t := arg(0)
		if _, ok := t.Underlying().(*types.Interface); !ok {
			ec.fail("typeof of non-interface")
		}
		return Value{C: []Term{v.C[0]}}, tUntypedInt
	case "ival":
		v, _ := arg(0)
		return Value{C: []Term{v.C[1]}}, tUntypedInt
	case "str":
		v, t := arg(0)
		if !isStringT(t) {
			ec.fail("str of non-string")
		}
		return Value{C: []Term{vc.strId(v)}}, tUntypedInt
	case "unixnano":
		v, _ := arg(0)
		vc.declareFun("unixnano", []string{"Int", "Int"}, "Int")
		return Value{C: []Term{sApp("unixnano", v.C[0], v.C[1])}}, types.Typ[types.Int64]
	case "arr":
		v, _ := arg(0)
		return Value{C: []Term{v.C[0]}}, tUntypedInt
	case "off":
		v, _ := arg(0)
		return Value{C: []Term{v.C[1]}}, tUntypedInt
	case "ref":
		v, _ := arg(0)
		return Value{C: []Term{v.C[0]}}, tUntypedInt
	case "addr":
		p, _ := ec.evalAddr(x.Args[0])
		return Value{C: []Term{p.C[0]}}, tUntypedInt
	case "isclosure":
		// isclosure(f, "pkg::Key") : f is a closure made from that function literal
		ec.fail("isclosure not supported")
	case "to_real":
		v, _ := arg(0)
		return Value{C: []Term{toReal(v.C[0])}}, tReal
	case "to_int":
		v, _ := arg(0)
		return Value{C: []Term{"(to_int " + v.C[0] + ")"}}, tUntypedInt
	}
	// conversions to basic types
	if obj := types.Universe.Lookup(name); obj != nil {
		if tn, ok := obj.(*types.TypeName); ok && len(x.Args) == 1 {
			v, t := arg(0)
			tt := tn.Type()
			switch {
			case isFloat(tt) && (isInteger(t) || t == tUntypedInt):
				return Value{C: []Term{toReal(v.C[0])}}, tt
			case isInteger(tt) && (isFloat(t) || t == tReal):
				return Value{C: []Term{"(ite (>= " + v.C[0] + " 0.0) (to_int " + v.C[0] + ") (- (to_int (- " + v.C[0] + "))))"}}, tt
			case isInteger(tt) && (isInteger(t) || t == tUntypedInt):
				// specification integers are mathematical: conversion wraps like Go only when
				// asked explicitly through wrapN(); plain T(x) keeps the value
				return v, tt
			}
			return v, tt
		}
	}
	switch name {
	case "wrap8", "wrap16", "wrap32", "wrap64", "wrapu8", "wrapu16", "wrapu32", "wrapu64":
		v, _ := arg(0)
		m := map[string]types.Type{"wrap8": types.Typ[types.Int8], "wrap16": types.Typ[types.Int16], "wrap32": types.Typ[types.Int32], "wrap64": types.Typ[types.Int64],
			"wrapu8": types.Typ[types.Uint8], "wrapu16": types.Typ[types.Uint16], "wrapu32": types.Typ[types.Uint32], "wrapu64": types.Typ[types.Uint64]}
		return Value{C: []Term{wrapTo(m[name], v.C[0])}}, m[name]
	}
	// named type conversion in this package (e.g. time.Duration(x))
	if sel, ok := x.Fun.(*ast.SelectorExpr); ok && len(x.Args) == 1 {
		if id, ok := sel.X.(*ast.Ident); ok && ec.isPkgName(id.Name) && ec.pkg != nil {
			for _, imp := range ec.pkg.Imports() {
				if imp.Name() == id.Name {
					if tn, ok := imp.Scope().Lookup(sel.Sel.Name).(*types.TypeName); ok {
						v, _ := arg(0)
						return v, tn.Type()
					}
				}
			}
		}
	}
	// spec functions
	if sig, ok := vc.eng.cs.SpecSyms[name]; ok {
		var ts []Term
		for i := range x.Args {
			v, _ := arg(i)
			ts = append(ts, v.C...)
		}
		var rt types.Type = tUntypedInt
		switch sig.Ret {
		case "Bool":
			rt = tBool
		case "Real":
			rt = tReal
		}
		return Value{C: []Term{sApp(sym(name), ts...)}}, rt
	}
	ec.fail("unknown function %q in contract", name)
	return Value{}, nil
}

// ---------------------------------------------------------------------
// modifies clauses

func (fr *Frame) havocLoc(m string, pkg *types.Package, env map[string]bound, st, old *State) error {
	vc := fr.vc
	m = strings.TrimSpace(m)
	if m == "heap" {
		vc.havocAll(st)
		return nil
	}
	if m == "nothing" || m == "" {
		return nil
	}
	lookup := func(name string, _ *State) (bound, bool) { b, ok := env[name]; return b, ok }
	if env == nil {
		lookup = fr.frameLookup(nil)
	}
	ec := &evalCtx{vc: vc, fr: fr, pkg: pkg, lookup: lookup, cur: st, old: old, qvars: map[string]bound{}}
	var err error
	func() {
		defer func() {
			if r := recover(); r != nil {
				if ee, ok := r.(evalErr); ok {
					err = fmt.Errorf("%s", ee.msg)
					return
				}
				panic(r)
			}
		}()
		if strings.HasPrefix(m, "ghost.") {
			rest := strings.TrimPrefix(m, "ghost.")
			name := rest
			idx := ""
			if i := strings.Index(rest, "["); i >= 0 {
				name = rest[:i]
				idx = strings.TrimSuffix(rest[i+1:], "]")
			}
			g, ok := vc.eng.cs.Ghosts[name]
			if !ok {
				ec.fail("undeclared ghost %s", name)
			}
			if g.GoType != "" {
				gt := vc.eng.ghostGoType(g)
				if gt == nil {
					ec.fail("ghost %s: cannot resolve type %s", g.Name, g.GoType)
				}
				nv := vc.freshValue("ghost."+name, gt, st)
				for i, c := range comps(gt) {
					vc.famSort["ghost."+name+c.Suffix] = c.Sort
					st.heap["ghost."+name+c.Suffix] = nv.C[i]
				}
				return
			}
			cur := vc.get(st, "ghost."+name, g.Sort)
			if idx == "" || idx == "*" {
				n := vc.fresh("ghost."+name, g.Sort)
				st.heap["ghost."+name] = n
				return
			}
			e, perr := parseContractExpr(idx)
			if perr != nil {
				ec.fail("%v", perr)
			}
			iv, _ := ec.eval(e)
			inner := strings.TrimSuffix(strings.TrimPrefix(g.Sort, "(Array Int "), ")")
			vc.set(st, "ghost."+name, g.Sort, sStore(cur, iv.C[0], vc.fresh("ghost."+name+".elem", inner)))
			return
		}
		if strings.HasSuffix(m, "[*]") {
			e, perr := parseContractExpr(strings.TrimSuffix(m, "[*]"))
			if perr != nil {
				ec.fail("%v", perr)
			}
			v, t := ec.eval(e)
			switch u := t.Underlying().(type) {
			case *types.Slice:
				ek := "M." + typeKey(u.Elem())
				for _, c := range comps(u.Elem()) {
					srt := "(Array Int (Array Int " + c.Sort + "))"
					a := vc.get(st, ek+c.Suffix, srt)
					fa := vc.fresh("havoc"+c.Suffix, "(Array Int "+c.Sort+")")
					vc.set(st, ek+c.Suffix, srt, sStore(a, v.C[0], fa))
				}
			case *types.Map:
				fam := mapFam(t)
				for _, c := range comps(u.Elem()) {
					srt := "(Array Int (Array Int " + c.Sort + "))"
					a := vc.get(st, fam+".val"+c.Suffix, srt)
					vc.set(st, fam+".val"+c.Suffix, srt, sStore(a, v.C[0], vc.fresh("havoc", "(Array Int "+c.Sort+")")))
				}
				hs := "(Array Int (Array Int Bool))"
				a := vc.get(st, fam+".has", hs)
				vc.set(st, fam+".has", hs, sStore(a, v.C[0], vc.fresh("havoc", "(Array Int Bool)")))
				cn := vc.get(st, fam+".count", "(Array Int Int)")
				nc := vc.fresh("havoc.count", "Int")
				vc.assumeAlways("(<= 0 " + nc + ")")
				vc.set(st, fam+".count", "(Array Int Int)", sStore(cn, v.C[0], nc))
			case *types.Pointer:
				if at, ok := u.Elem().Underlying().(*types.Array); ok {
					ek := "M." + typeKey(at.Elem())
					for _, c := range comps(at.Elem()) {
						srt := "(Array Int (Array Int " + c.Sort + "))"
						a := vc.get(st, ek+c.Suffix, srt)
						vc.set(st, ek+c.Suffix, srt, sStore(a, v.C[0], vc.fresh("havoc", "(Array Int "+c.Sort+")")))
					}
					return
				}
				ec.fail("[*] on %s", t)
			default:
				ec.fail("[*] on %s", t)
			}
			return
		}
		if strings.HasSuffix(m, ".*") {
			e, perr := parseContractExpr(strings.TrimSuffix(m, ".*"))
			if perr != nil {
				ec.fail("%v", perr)
			}
			v, t := ec.eval(e)
			pt, ok := t.Underlying().(*types.Pointer)
			if !ok {
				ec.fail(".* needs a pointer to struct")
			}
			nv := vc.freshValue("havoc", pt.Elem(), st)
			vc.store(st, v, pt.Elem(), nv)
			return
		}
		e, perr := parseContractExpr(m)
		if perr != nil {
			ec.fail("%v", perr)
		}
		p, t := ec.evalAddr(e)
		nv := vc.freshValue("havoc."+m, t, st)
		vc.store(st, p, t, nv)
	}()
	return err
}
