package main

import (
	"fmt"
	"go/ast"
	"go/token"
	"go/types"
	"strings"

	"golang.org/x/tools/go/ssa"
)

type bound struct {
	v Value
	t types.Type
}

func tupleValue(vs []Value) Value {
	var out Value
	for _, v := range vs {
		out.C = append(out.C, v.C...)
	}
	if len(vs) == 1 {
		out.Sh = vs[0].Sh
	}
	return out
}

func (fr *Frame) calleeName(cc *ssa.CallCommon) string {
	if cc.IsInvoke() {
		return "(" + types.TypeString(cc.Value.Type(), func(p *types.Package) string { return p.Name() }) + ")." + cc.Method.Name()
	}
	if f := cc.StaticCallee(); f != nil {
		return f.String()
	}
	return cc.Value.Name()
}

func (fr *Frame) execCall(cc *ssa.CallCommon, st *State, site ssa.Instruction, deferred bool) (Value, error) {
	vc := fr.vc
	var args []Value
	for _, a := range cc.Args {
		args = append(args, fr.val(a))
	}
	resT := cc.Signature().Results()
	// 1. builtins
	if b, ok := cc.Value.(*ssa.Builtin); ok {
		return fr.execBuiltin(b, cc, args, st, site, deferred)
	}
	// 2. interface method
	if cc.IsInvoke() {
		recv := fr.val(cc.Value)
		if vc.contract != nil && vc.contract.Flags["nilcheck"] != "" && fr.dry == 0 {
			// a method call on a nil interface value panics (checked where a contract asks for it)
			fr.implicit(st, "nilcall", sNot(sEq(recv.C[0], "0")), sitePos(site), isAnyExpr, "call "+cc.Method.Name()+" on "+cc.Value.Name())
		}
		if c := vc.eng.ifaceContract(cc.Value.Type(), cc.Method.Name()); c != nil {
			names := contractParamNames(c, nil, cc.Method.Type().(*types.Signature), true)
			all := append([]Value{recv}, args...)
			ptypes := append([]types.Type{cc.Value.Type()}, sigParamTypes(cc.Method.Type().(*types.Signature))...)
			return fr.applyContract(c, names, ptypes, all, resT, st, site, fr.calleeName(cc))
		}
		return fr.unknownCall(cc, append([]Value{recv}, args...), st, site)
	}
	// 3. static callee
	if fn := cc.StaticCallee(); fn != nil {
		if fr.parent == nil && fr.contract != nil {
			for _, n := range callCounterNames(fr.contract) {
				if n == fn.Name() {
					defer func(key string) {
						vc.set(st, key, "Int", iAdd(vc.get(st, key, "Int"), "1"))
					}("S.calls:" + n)
				}
			}
		}
		if fr.parent == nil && fr.contract != nil && fr.contract.AtCall != nil && fr.dry == 0 {
			for _, key := range []string{funcKey(fn), fn.Name()} {
				for _, cl := range fr.contract.AtCall[key] {
					if site != nil {
						fr.evalPoint = site.Block()
					}
					// the actual arguments of this call are visible to the clause as arg0, arg1, ...
					argEnv := map[string]bound{}
					ptypes := sigParamTypes(fn.Signature)
					if fn.Signature.Recv() != nil {
						ptypes = append([]types.Type{fn.Signature.Recv().Type()}, ptypes...)
					}
					for ai, av := range args {
						if ai < len(ptypes) {
							argEnv[fmt.Sprintf("arg%d", ai)] = bound{av, ptypes[ai]}
						}
					}
					t, sks, err := fr.evalGoal(cl, st, fr.entry, argEnv)
					fr.evalPoint = nil
					if err != nil {
						return Value{}, fmt.Errorf("%s:%d: %v", cl.File, cl.Line, err)
					}
					vc.obligeHinted(st, "atcall", key+":"+fr.contract.clauseName(cl), t, sks, sitePos(site), cl.Text)
				}
			}
		}
		if v, ok, err := fr.intrinsic(fn, cc, args, st, site); ok || err != nil {
			return v, err
		}
		var bindings []Value
		if mc, ok := cc.Value.(*ssa.MakeClosure); ok {
			for _, b := range mc.Bindings {
				bindings = append(bindings, fr.val(b))
			}
		}
		return fr.callFunction(fn, bindings, args, resT, st, site, deferred, cc)
	}
	// 4. dynamic function value
	if p, ok := cc.Value.(*ssa.Parameter); ok && fr.contract != nil && fr.parent == nil && fr.dry == 0 {
		for _, cl := range fr.contract.OnCall[p.Name()] {
			t, err := fr.evalClause(cl, st, fr.entry, nil)
			if err != nil {
				return Value{}, fmt.Errorf("%s:%d: %v", cl.File, cl.Line, err)
			}
			vc.obligeHinted(st, "oncall", p.Name()+":"+fr.contract.clauseName(cl), t, nil, sitePos(site), cl.Text)
		}
	}
	fv := fr.val(cc.Value)
	if ci, ok := vc.closures[fv.C[0]]; ok {
		return fr.callFunction(ci.fn, ci.bindings, args, resT, st, site, deferred, cc)
	}
	if fn, ok := vc.funcRefs[fv.C[0]]; ok {
		return fr.callFunction(fn, nil, args, resT, st, site, deferred, cc)
	}
	if c := vc.eng.typeContract(cc.Value.Type()); c != nil {
		names := contractParamNames(c, nil, cc.Signature(), false)
		return fr.applyContract(c, names, sigParamTypes(cc.Signature()), args, resT, st, site, fr.calleeName(cc))
	}
	// a function stored in a struct field with a declared type contract (fieldfunc)
	if c := fr.fieldFuncContract(cc.Value); c != nil {
		names := append(append([]string{}, contractParamNames(c, nil, cc.Signature(), false)...), "self_fn")
		pts := append(sigParamTypes(cc.Signature()), cc.Value.Type())
		return fr.applyContract(c, names, pts, append(append([]Value{}, args...), fv), resT, st, site, fr.calleeName(cc))
	}
	// a parameter of function type with a per-function declaration "flag fn.<param>=<TypeContract>"
	if p, ok := cc.Value.(*ssa.Parameter); ok && fr.contract != nil {
		if tn := fr.contract.Flags["fn."+p.Name()]; tn != "" {
			if c := vc.eng.cs.Types[tn]; c != nil {
				names := contractParamNames(c, nil, cc.Signature(), false)
				return fr.applyContract(c, names, sigParamTypes(cc.Signature()), args, resT, st, site, fr.calleeName(cc))
			}
		}
	}
	return fr.unknownCall(cc, args, st, site)
}

func (fr *Frame) fieldFuncContract(v ssa.Value) *Contract {
	ld, ok := v.(*ssa.UnOp)
	if !ok || ld.Op != token.MUL {
		return nil
	}
	fa, ok := ld.X.(*ssa.FieldAddr)
	if !ok {
		return nil
	}
	st := fa.X.Type().Underlying().(*types.Pointer).Elem()
	n := namedOf(st)
	s, isS := isStruct(st)
	if n == nil || !isS || n.Obj().Pkg() == nil {
		return nil
	}
	key := n.Obj().Pkg().Path() + "::" + n.Obj().Name() + "." + s.Field(fa.Field).Name()
	if tn, ok := fr.vc.eng.cs.FieldFuncs[key]; ok {
		return fr.vc.eng.cs.Types[tn]
	}
	return nil
}

func sigParamTypes(sig *types.Signature) []types.Type {
	var out []types.Type
	for i := 0; i < sig.Params().Len(); i++ {
		out = append(out, sig.Params().At(i).Type())
	}
	return out
}

func contractParamNames(c *Contract, fn *ssa.Function, sig *types.Signature, hasRecv bool) []string {
	if len(c.Params) > 0 {
		return c.Params
	}
	var names []string
	if fn != nil {
		for _, p := range fn.Params {
			names = append(names, p.Name())
		}
		return names
	}
	if hasRecv {
		names = append(names, "self")
	}
	for i := 0; i < sig.Params().Len(); i++ {
		n := sig.Params().At(i).Name()
		if n == "" || n == "_" {
			n = fmt.Sprintf("p%d", i)
		}
		names = append(names, n)
	}
	return names
}

func (e *Engine) ifaceContract(t types.Type, method string) *Contract {
	n := namedOf(t)
	if n == nil {
		if a, ok := t.(*types.Alias); ok {
			if a.Obj().Pkg() != nil {
				if c, ok := e.cs.Ifaces[a.Obj().Pkg().Path()+"::"+a.Obj().Name()+"."+method]; ok {
					return c
				}
			}
		}
		return nil
	}
	pkg := ""
	if n.Obj().Pkg() != nil {
		pkg = n.Obj().Pkg().Path()
	}
	if c, ok := e.cs.Ifaces[pkg+"::"+n.Obj().Name()+"."+method]; ok {
		return c
	}
	return nil
}

func (e *Engine) typeContract(t types.Type) *Contract {
	switch tt := t.(type) {
	case *types.Alias:
		if tt.Obj().Pkg() != nil {
			if c, ok := e.cs.Types[tt.Obj().Pkg().Path()+"::"+tt.Obj().Name()]; ok {
				return c
			}
		}
		return e.typeContract(types.Unalias(tt))
	case *types.Named:
		if tt.Obj().Pkg() != nil {
			if c, ok := e.cs.Types[tt.Obj().Pkg().Path()+"::"+tt.Obj().Name()]; ok {
				return c
			}
		}
	}
	return nil
}

func (fr *Frame) inStack(fn *ssa.Function) bool {
	for _, f := range fr.stack {
		if f == fn {
			return true
		}
	}
	return false
}

func (fr *Frame) callFunction(fn *ssa.Function, bindings, args []Value, resT *types.Tuple, st *State, site ssa.Instruction, deferred bool, cc *ssa.CallCommon) (Value, error) {
	vc := fr.vc
	c := vc.eng.contractFor(fn)
	isMod := fn.Pkg != nil && strings.HasPrefix(fn.Pkg.Pkg.Path(), modPath)
	if c != nil && c.Flags["inline"] == "" {
		names := contractParamNames(c, fn, fn.Signature, fn.Signature.Recv() != nil)
		var ptypes []types.Type
		if len(fn.Params) == len(args) {
			for _, p := range fn.Params {
				ptypes = append(ptypes, p.Type())
			}
		} else {
			ptypes = sigParamTypes(fn.Signature)
		}
		return fr.applyContract(c, names, ptypes, args, resT, st, site, fn.String())
	}
	canInline := len(fn.Blocks) > 0 && fr.depth < maxInlineDepth && !fr.inStack(fn) && (isMod || fn.Parent() != nil)
	if c != nil && c.Flags["noinline"] != "" {
		canInline = false
	}
	if canInline {
		cf := vc.newFrame(fn, fr)
		cf.deferred = deferred
		cf.entry = st.clone()
		for i, p := range fn.Params {
			if i < len(args) {
				cf.vals[p] = args[i]
			}
		}
		for i, fv := range fn.FreeVars {
			if i < len(bindings) {
				cf.vals[fv] = bindings[i]
			}
		}
		cf.dry = fr.dry
		res, err := cf.execBody(st.clone())
		if err != nil {
			// cannot model the body: treat as unknown
			vc.note("inlining failed for " + fn.String() + ": " + err.Error())
			return fr.unknownCall(cc, args, st, site)
		}
		if res.panicSt != nil {
			ps := res.panicSt
			if st.panicking {
				// a panic inside a deferred call on the exceptional path escapes directly
			}
			fr.addPanic(ps)
		}
		if res.normal == nil {
			st.reach = "false"
			return zeroValue(resT), nil
		}
		keepPanicking, keepVal := st.panicking, st.panicVal
		*st = *res.normal
		st.panicking, st.panicVal = keepPanicking, keepVal
		if !keepPanicking {
			st.recovered = ""
		}
		return tupleValue(res.results), nil
	}
	return fr.unknownCall(cc, args, st, site)
}

// unknownCall: code we neither execute nor have a contract for.
func (fr *Frame) unknownCall(cc *ssa.CallCommon, args []Value, st *State, site ssa.Instruction) (Value, error) {
	vc := fr.vc
	name := "function value"
	if cc != nil {
		name = fr.calleeName(cc)
	}
	vc.note("call without contract (heap havocked, may panic): " + name)
	fr.escapeArgs(args)
	vc.havocAll(st)
	var resT *types.Tuple
	if cc != nil {
		resT = cc.Signature().Results()
	}
	// may panic
	ps := st.clone()
	pb := vc.fresh("panics."+shortName(name), "Bool")
	ps.reach = sAnd(st.reach, pb)
	fr.addPanic(ps)
	st.reach = sAnd(st.reach, sNot(pb))
	if resT == nil || resT.Len() == 0 {
		return Value{}, nil
	}
	v := vc.freshValue("ret."+shortName(name), resT, st)
	vc.assume(st, vc.allocFacts(st, v, resT))
	return v, nil
}

func shortName(s string) string {
	pre := ""
	if strings.HasPrefix(s, "(*") {
		pre = "(*"
		s = s[2:]
	} else if strings.HasPrefix(s, "(") {
		pre = "("
		s = s[1:]
	}
	if i := strings.LastIndex(s, "/"); i >= 0 {
		s = s[i+1:]
	}
	return pre + s
}

func (fr *Frame) escapeArgs(args []Value) {
	for _, a := range args {
		for _, t := range a.C {
			for _, al := range fr.vc.allocs {
				if al.ref == t {
					al.escaped = true
				}
			}
		}
	}
}

// applyContract: modular call. requires -> obligations, modifies -> havoc, ensures -> assumptions.
func (fr *Frame) applyContract(c *Contract, names []string, ptypes []types.Type, args []Value, resT *types.Tuple, st *State, site ssa.Instruction, callee string) (Value, error) {
	vc := fr.vc
	env := map[string]bound{}
	for i, n := range names {
		if i < len(args) && i < len(ptypes) {
			env[n] = bound{args[i], ptypes[i]}
		}
	}
	pkg := vc.eng.pkgTypes(c.Pkg)
	pos := token.NoPos
	if site != nil {
		pos = site.Pos()
	}
	beforeUpto, beforeReach := len(vc.cmds), st.reach
	if c.Flags["noretain"] == "" {
		// the callee may keep the references it is given
		fr.escapeArgs(args)
	}
	old := st.clone()
	for _, l := range c.Lets {
		v, t, err := fr.evalIn(l.Text, pkg, env, st, old, nil)
		if err != nil {
			return Value{}, fmt.Errorf("%s:%d: %v", l.File, l.Line, err)
		}
		env[l.Label] = bound{v, t}
	}
	for _, r := range c.Requires {
		if fr.dry > 0 {
			v, _, err := fr.evalIn(r.Text, pkg, env, st, old, nil)
			if err != nil {
				return Value{}, fmt.Errorf("%s:%d: %v", r.File, r.Line, err)
			}
			vc.assume(st, v.C[0])
			continue
		}
		v, sks, err := fr.evalInGoal(r.Text, pkg, env, st, old)
		if err != nil {
			return Value{}, fmt.Errorf("%s:%d: %v", r.File, r.Line, err)
		}
		nm := shortName(callee) + ":" + c.clauseName(r)
		if fr.parent != nil {
			nm = funcKey(fr.fn) + ":" + nm
		}
		vc.obligeHinted(st, "pre", nm, v.C[0], sks, pos, r.Text)
	}
	// frame
	for _, m := range c.Modifies {
		if err := fr.havocLoc(m, pkg, env, st, old); err != nil {
			return Value{}, fmt.Errorf("%s:%d: modifies %s: %v", c.File, c.Line, m, err)
		}
	}
	if c.Flags["havoc"] != "" {
		fr.escapeArgs(args)
		vc.havocAll(st)
	}
	// the callee may allocate: the set of allocated references can only grow
	if c.Flags["havoc"] == "" {
		oldA := vc.get(st, allocKey, allocSort)
		neuA := vc.fresh(allocKey, allocSort)
		vc.nfresh++
		q := sym(fmt.Sprintf("al!q%d", vc.nfresh))
		vc.emit("(assert (forall ((" + q + " Int)) (=> (select " + oldA + " " + q + ") (select " + neuA + " " + q + "))))")
		st.heap[allocKey] = neuA
		st.markDirty(allocKey)
	}
	// results
	var res Value
	if resT != nil && resT.Len() > 0 {
		res = vc.freshValue("ret."+shortName(callee), resT, st)
		vc.assume(st, vc.allocFacts(st, res, resT))
		for i := 0; i < resT.Len(); i++ {
			lo, hi := tupleRange(resT, i)
			b := bound{Value{C: res.C[lo:hi]}, resT.At(i).Type()}
			env[fmt.Sprintf("result%d", i)] = b
			if i == 0 && len(c.Results) == 0 {
				env["result"] = b
			}
			if i < len(c.Results) {
				env[c.Results[i]] = b
			} else if n := resT.At(i).Name(); n != "" && n != "_" {
				if _, clash := env[n]; !clash {
					env[n] = b
				}
			}
		}
	}
	// exceptional exit
	if c.Flags["nopanic"] == "" {
		ps := st.clone()
		pb := vc.fresh("panics."+shortName(callee), "Bool")
		ps.reach = sAnd(st.reach, pb)
		for _, e := range c.EnsPanic {
			v, _, err := fr.evalIn(e.Text, pkg, env, ps, old, nil)
			if err != nil {
				return Value{}, fmt.Errorf("%s:%d: %v", e.File, e.Line, err)
			}
			vc.assume(ps, v.C[0])
		}
		fr.addPanic(ps)
		st.reach = sAnd(st.reach, sNot(pb))
	}
	for _, e := range c.Ensures {
		v, _, err := fr.evalIn(e.Text, pkg, env, st, old, nil)
		if err != nil {
			if strings.Contains(err.Error(), "unknown identifier") {
				// the clause speaks about the callee's locals: it is checked on the callee but
				// tells a caller nothing (sound: fewer assumptions)
				continue
			}
			return Value{}, fmt.Errorf("%s:%d: %v", e.File, e.Line, err)
		}
		vc.assume(st, v.C[0])
	}
	if fr.dry == 0 {
		hasForall := false
		for _, e := range c.Ensures {
			if strings.Contains(e.Text, "forall(") {
				hasForall = true
			}
		}
		if hasForall {
			post := st.clone()
			envCopy := map[string]bound{}
			for k, v := range env {
				envCopy[k] = v
			}
			vc.univ = append(vc.univ, func(inst []Term) {
				for _, e := range c.Ensures {
					if !strings.Contains(e.Text, "forall(") {
						continue
					}
					ex, perr := parseContractExpr(e.Text)
					if perr != nil {
						continue
					}
					lookup := func(name string, _ *State) (bound, bool) { b, ok := envCopy[name]; return b, ok }
					ec := &evalCtx{vc: vc, fr: fr, pkg: pkg, lookup: lookup, cur: post, old: old, now: post, qvars: map[string]bound{}, inst: inst}
					if v, _, err := ec.evalSafe(ex); err == nil && len(v.C) == 1 {
						vc.assume(post, v.C[0])
					}
				}
			})
		}
	}
	if !c.Assumed && c.Kind == "func" && len(c.Props) == 0 {
		vc.assumed["assumed contract (function of this repository, its body is not verified under any property): "+shortPkg(c.Pkg)+"."+c.Key] = true
	}
	if c.Assumed {
		vc.assumed["assumed contract: "+shortPkg(c.Pkg)+"."+c.Key] = true
	}
	// vacuity guard: the path must still be feasible after assuming the callee's postcondition
	if fr.dry == 0 && st.reach != "false" {
		nm := shortName(callee)
		if fr.parent != nil {
			nm = funcKey(fr.fn) + ":" + nm
		}
		vc.coverCall(beforeUpto, beforeReach, st, "after_call:"+nm, pos)
	}
	return res, nil
}

func (e *Engine) pkgTypes(path string) *types.Package {
	if p, ok := e.pkgs[path]; ok {
		return p.Types
	}
	return nil
}

// ---------------------------------------------------------------------
// builtins

func (fr *Frame) execBuiltin(b *ssa.Builtin, cc *ssa.CallCommon, args []Value, st *State, site ssa.Instruction, deferred bool) (Value, error) {
	vc := fr.vc
	switch b.Name() {
	case "len":
		switch t := cc.Args[0].Type().Underlying().(type) {
		case *types.Slice:
			return Value{C: []Term{args[0].C[2]}}, nil
		case *types.Basic:
			return Value{C: []Term{args[0].C[2]}}, nil
		case *types.Array:
			return Value{C: []Term{sInt(t.Len())}}, nil
		case *types.Pointer:
			if at, ok := t.Elem().Underlying().(*types.Array); ok {
				return Value{C: []Term{sInt(at.Len())}}, nil
			}
		case *types.Map:
			cn := vc.get(st, mapFam(cc.Args[0].Type())+".count", "(Array Int Int)")
			n := sSel(cn, args[0].C[0])
			vc.assumeAlways("(<= 0 " + n + ")")
			return Value{C: []Term{sIte(sEq(args[0].C[0], "0"), "0", n)}}, nil
		case *types.Chan:
			lenA := vc.get(st, "ghost.chanlen", "(Array Int Int)")
			return Value{C: []Term{sSel(lenA, args[0].C[0])}}, nil
		}
	case "cap":
		switch t := cc.Args[0].Type().Underlying().(type) {
		case *types.Slice:
			return Value{C: []Term{args[0].C[3]}}, nil
		case *types.Array:
			return Value{C: []Term{sInt(t.Len())}}, nil
		case *types.Chan:
			capA := vc.get(st, "ghost.chancap", "(Array Int Int)")
			return Value{C: []Term{sSel(capA, args[0].C[0])}}, nil
		}
	case "append":
		return fr.execAppend(cc, args, st, site)
	case "copy":
		return fr.execCopy(cc, args, st, site)
	case "recover":
		if st.panicking && fr.deferred && !fr.calledViaInline(site) {
			rec := st.recovered
			if rec == "" {
				rec = "false"
			}
			v := Value{C: []Term{sIte(rec, "0", st.panicVal.C[0]), sIte(rec, "0", st.panicVal.C[1])}}
			st.recovered = "true"
			return v, nil
		}
		if st.panicking && !fr.deferred {
			vc.note("recover() called by a function that is not itself the deferred function: returns nil")
		}
		return Value{C: []Term{"0", "0"}}, nil
	case "close":
		cl := vc.get(st, "ghost.chanclosed", "(Array Int Int)")
		ch := args[0].C[0]
		if fr.dry == 0 {
			fr.implicit(st, "close", sAnd(sNot(sEq(ch, "0")), sEq(sSel(cl, ch), "0")), sitePos(site), isCallNode, "close")
		}
		vc.set(st, "ghost.chanclosed", "(Array Int Int)", sStore(cl, ch, "1"))
		return Value{}, nil
	case "delete":
		mt := cc.Args[0].Type()
		mu := mt.Underlying().(*types.Map)
		fam := mapFam(mt)
		if k, ok := mapKeyTerm(vc, args[1], mu.Key()); ok {
			k = vc.define("key", "Int", k)
			hs := "(Array Int (Array Int Bool))"
			has := vc.get(st, fam+".has", hs)
			cn := vc.get(st, fam+".count", "(Array Int Int)")
			m := args[0].C[0]
			was := sSel(sSel(has, m), k)
			vc.set(st, fam+".count", "(Array Int Int)", sStore(cn, m, sIte(was, iSub(sSel(cn, m), "1"), sSel(cn, m))))
			vc.set(st, fam+".has", hs, sStore(has, m, sStore(sSel(has, m), k, "false")))
		} else {
			vc.havocFam(st, fam+".has")
			vc.havocFam(st, fam+".count")
		}
		return Value{}, nil
	case "print", "println":
		return Value{}, nil
	case "min", "max":
		if len(args) == 2 && isInteger(cc.Args[0].Type()) {
			op := "<="
			if b.Name() == "max" {
				op = ">="
			}
			return Value{C: []Term{sIte("("+op+" "+args[0].C[0]+" "+args[1].C[0]+")", args[0].C[0], args[1].C[0])}}, nil
		}
	case "real":
		return Value{C: []Term{args[0].C[0]}}, nil
	case "imag":
		return Value{C: []Term{args[0].C[1]}}, nil
	case "complex":
		return Value{C: []Term{args[0].C[0], args[1].C[0]}}, nil
	case "ssa:wrapnilchk":
		return args[0], nil
	}
	vc.note("builtin not modelled: " + b.Name())
	rt := cc.Signature().Results()
	if rt.Len() == 0 {
		return Value{}, nil
	}
	return vc.freshValue("builtin."+b.Name(), rt, st), nil
}

func sitePos(site ssa.Instruction) token.Pos {
	if site == nil {
		return token.NoPos
	}
	return site.Pos()
}

func (fr *Frame) calledViaInline(site ssa.Instruction) bool { return false }

func isConstLen(t Term) (int, bool) {
	n, ok := isSmallConst(t)
	if ok && n >= 0 && n <= 8 {
		return int(n), true
	}
	return 0, false
}

func (fr *Frame) execAppend(cc *ssa.CallCommon, args []Value, st *State, site ssa.Instruction) (Value, error) {
	vc := fr.vc
	s, tl := args[0], args[1]
	var et types.Type
	if sl, ok := cc.Args[0].Type().Underlying().(*types.Slice); ok {
		et = sl.Elem()
	} else {
		return vc.freshValue("append", cc.Signature().Results(), st), nil
	}
	srcIsString := isStringT(cc.Args[1].Type())
	tlen := tl.C[2]
	newLen := vc.define("append.len", "Int", iAdd(s.C[2], tlen))
	inplace := vc.defineBool("append.inplace", "(<= "+newLen+" "+s.C[3]+")")
	a := vc.newAlloc(st, types.NewArray(et, 0), true)
	ncap := vc.fresh("append.cap", "Int")
	vc.assumeAlways("(>= " + ncap + " " + newLen + ")")
	res := Value{C: []Term{
		vc.define("append.arr", "Int", sIte(inplace, s.C[0], a.ref)),
		vc.define("append.off", "Int", sIte(inplace, s.C[1], "0")),
		newLen,
		vc.define("append.cap", "Int", sIte(inplace, s.C[3], ncap)),
	}}
	// appending nothing to a nil slice yields nil
	if _, isS := isStruct(et); isS {
		if _, flat := flatStruct(et); !flat || srcIsString {
			vc.note("append of struct elements: contents abstracted")
			return res, nil
		}
		// element objects elem(arr, i) carry their fields in the H families of the struct
		roff := res.C[1]
		lo1 := roff
		hi1 := vc.define("append.mid", "Int", iAdd(roff, s.C[2]))
		hi2 := vc.define("append.end", "Int", iAdd(roff, newLen))
		el := func(arr, idx Term) Term { return vc.elemPtr(arr, idx, et).C[0] }
		ekS := "M." + typeKey(et)
		eidx := sym("elem_idx:" + ekS)
		for _, c := range comps(et) {
			key := structKey(et) + c.Suffix
			srt := "(Array Int " + c.Sort + ")"
			h := vc.get(st, key, srt)
			neu := vc.fresh("append."+key, srt)
			vc.nfresh++
			i := sym(fmt.Sprintf("i!%d", vc.nfresh))
			vc.inQuant++
			c1 := "(forall ((" + i + " Int)) (! (=> (and (<= " + lo1 + " " + i + ") (< " + i + " " + hi1 + ")) (= (select " + neu + " " + el(res.C[0], i) + ") (select " + h + " " + el(s.C[0], "(+ "+s.C[1]+" (- "+i+" "+roff+"))") + "))) :pattern (" + el(res.C[0], i) + ")))"
			c2 := "(forall ((" + i + " Int)) (! (=> (and (<= " + hi1 + " " + i + ") (< " + i + " " + hi2 + ")) (= (select " + neu + " " + el(res.C[0], i) + ") (select " + h + " " + el(tl.C[0], "(+ "+tl.C[1]+" (- "+i+" "+hi1+"))") + "))) :pattern (" + el(res.C[0], i) + ")))"
			c3 := "(forall ((" + i + " Int)) (! (=> (not (and " + vc.isElemOf(i, res.C[0], et) + " (<= " + lo1 + " (" + eidx + " " + i + ")) (< (" + eidx + " " + i + ") " + hi2 + "))) (= (select " + neu + " " + i + ") (select " + h + " " + i + "))) :pattern ((select " + neu + " " + i + "))))"
			vc.inQuant--
			vc.assume(st, c1)
			vc.assume(st, c2)
			vc.assume(st, c3)
			if n, ok := isConstLen(tlen); ok {
				for j := 0; j < n; j++ {
					vc.assume(st, sEq(sSel(neu, el(res.C[0], iAdd(hi1, sInt(int64(j))))), sSel(h, el(tl.C[0], iAdd(tl.C[1], sInt(int64(j)))))))
				}
			}
			vc.set(st, key, srt, neu)
			if fr.dry == 0 {
				reach := st.reach
				neuC, hC := neu, h
				sArr, sOff, tArr, tOff, rArr, lo1C, hi1C, hi2C, roffC := s.C[0], s.C[1], tl.C[0], tl.C[1], res.C[0], lo1, hi1, hi2, roff
				vc.univ = append(vc.univ, func(inst []Term) {
					for _, t0 := range inst {
						for _, t := range []Term{t0, iAdd(roffC, t0)} {
							a1 := sImp(sAnd("(<= "+lo1C+" "+t+")", "(< "+t+" "+hi1C+")"), sEq(sSel(neuC, el(rArr, t)), sSel(hC, el(sArr, "(+ "+sOff+" (- "+t+" "+roffC+"))"))))
							a2 := sImp(sAnd("(<= "+hi1C+" "+t+")", "(< "+t+" "+hi2C+")"), sEq(sSel(neuC, el(rArr, t)), sSel(hC, el(tArr, "(+ "+tOff+" (- "+t+" "+hi1C+"))"))))
							vc.emit("(assert " + sImp(reach, sAnd(a1, a2)) + ")")
						}
					}
				})
			}
		}
		return res, nil
	}
	ek := "M." + typeKey(et)
	for ci, c := range comps(et) {
		srt := "(Array Int (Array Int " + c.Sort + "))"
		m := vc.get(st, ek+c.Suffix, srt)
		var srcArr Term
		if srcIsString {
			sm := vc.get(st, "S.byte", "(Array Int (Array Int Int))")
			srcArr = sSel(sm, tl.C[0])
		} else {
			srcArr = sSel(m, tl.C[0])
		}
		{
			fa := vc.fresh("append.data"+c.Suffix, "(Array Int "+c.Sort+")")
			i := sym(fmt.Sprintf("i!%d", vc.nfresh))
			// fa describes the contents of the result's backing array (in place or fresh), by absolute index
			roff := res.C[1]
			oldArr := sSel(m, s.C[0])
			lo1 := roff
			hi1 := vc.define("append.mid", "Int", iAdd(roff, s.C[2]))
			hi2 := vc.define("append.end", "Int", iAdd(roff, newLen))
			vc.assume(st, "(forall (("+i+" Int)) (! (=> (and (<= "+lo1+" "+i+") (< "+i+" "+hi1+")) (= (select "+fa+" "+i+") (select "+oldArr+" (+ "+s.C[1]+" (- "+i+" "+roff+"))))) :pattern ((select "+fa+" "+i+"))))")
			vc.assume(st, "(forall (("+i+" Int)) (! (=> (and (<= "+hi1+" "+i+") (< "+i+" "+hi2+")) (= (select "+fa+" "+i+") (select "+srcArr+" (+ "+tl.C[1]+" (- "+i+" "+hi1+"))))) :pattern ((select "+fa+" "+i+"))))")
			// in place: cells outside the appended window keep their value
			vc.assume(st, sImp(inplace, "(forall (("+i+" Int)) (! (=> (or (< "+i+" "+hi1+") (>= "+i+" "+hi2+")) (= (select "+fa+" "+i+") (select "+oldArr+" "+i+"))) :pattern ((select "+fa+" "+i+"))))"))
			if n, ok := isConstLen(tlen); ok {
				for j := 0; j < n; j++ {
					vc.assume(st, sEq(sSel(fa, iAdd(hi1, sInt(int64(j)))), sSel(srcArr, iAdd(tl.C[1], sInt(int64(j))))))
				}
			}
			vc.set(st, ek+c.Suffix, srt, sStore(m, res.C[0], fa))
			if fr.dry == 0 {
				reach := st.reach
				faC, oldC, srcC := fa, oldArr, srcArr
				sOff, tOff, lo1C, hi1C, hi2C, roffC, inpl := s.C[1], tl.C[1], lo1, hi1, hi2, roff, inplace
				vc.univ = append(vc.univ, func(inst []Term) {
					for _, t0 := range inst {
						for _, t := range []Term{t0, iAdd(roffC, t0)} {
							a1 := sImp(sAnd("(<= "+lo1C+" "+t+")", "(< "+t+" "+hi1C+")"), sEq(sSel(faC, t), sSel(oldC, "(+ "+sOff+" (- "+t+" "+roffC+"))")))
							a2 := sImp(sAnd("(<= "+hi1C+" "+t+")", "(< "+t+" "+hi2C+")"), sEq(sSel(faC, t), sSel(srcC, "(+ "+tOff+" (- "+t+" "+hi1C+"))")))
							a3 := sImp(sAnd(inpl, sOr("(< "+t+" "+hi1C+")", "(>= "+t+" "+hi2C+")")), sEq(sSel(faC, t), sSel(oldC, t)))
							vc.emit("(assert " + sImp(reach, sAnd(a1, a2, a3)) + ")")
						}
					}
				})
			}
		}
		_ = ci
	}
	return res, nil
}

func (fr *Frame) execCopy(cc *ssa.CallCommon, args []Value, st *State, site ssa.Instruction) (Value, error) {
	vc := fr.vc
	dst, src := args[0], args[1]
	sl, ok := cc.Args[0].Type().Underlying().(*types.Slice)
	if !ok {
		return vc.freshValue("copy", cc.Signature().Results(), st), nil
	}
	et := sl.Elem()
	srcIsString := isStringT(cc.Args[1].Type())
	n := vc.define("copy.n", "Int", sIte("(<= "+dst.C[2]+" "+src.C[2]+")", dst.C[2], src.C[2]))
	if _, isS := isStruct(et); isS {
		vc.note("copy of struct elements: contents abstracted")
		return Value{C: []Term{n}}, nil
	}
	ek := "M." + typeKey(et)
	for _, c := range comps(et) {
		srt := "(Array Int (Array Int " + c.Sort + "))"
		m := vc.get(st, ek+c.Suffix, srt)
		var srcArr Term
		if srcIsString {
			sm := vc.get(st, "S.byte", "(Array Int (Array Int Int))")
			srcArr = sSel(sm, src.C[0])
		} else {
			srcArr = sSel(m, src.C[0])
		}
		oldArr := sSel(m, dst.C[0])
		fa := vc.fresh("copy.data"+c.Suffix, "(Array Int "+c.Sort+")")
		i := sym(fmt.Sprintf("i!%d", vc.nfresh))
		vc.assume(st, "(forall (("+i+" Int)) (! (=> (and (<= "+dst.C[1]+" "+i+") (< "+i+" (+ "+dst.C[1]+" "+n+"))) (= (select "+fa+" "+i+") (select "+srcArr+" (+ "+src.C[1]+" (- "+i+" "+dst.C[1]+"))))) :pattern ((select "+fa+" "+i+"))))")
		vc.assume(st, "(forall (("+i+" Int)) (! (=> (or (< "+i+" "+dst.C[1]+") (>= "+i+" (+ "+dst.C[1]+" "+n+"))) (= (select "+fa+" "+i+") (select "+oldArr+" "+i+"))) :pattern ((select "+fa+" "+i+"))))")
		vc.set(st, ek+c.Suffix, srt, sStore(m, dst.C[0], fa))
		if fr.dry == 0 {
			// instances of the two copy axioms at the terms a later goal talks about
			reach := st.reach
			dOff, sOff := dst.C[1], src.C[1]
			faC, srcC, oldC, nC := fa, srcArr, oldArr, n
			vc.univ = append(vc.univ, func(inst []Term) {
				for _, t0 := range inst {
					for _, t := range []Term{t0, iAdd(dOff, t0)} {
						in1 := sImp(sAnd("(<= "+dOff+" "+t+")", "(< "+t+" (+ "+dOff+" "+nC+"))"), sEq(sSel(faC, t), sSel(srcC, "(+ "+sOff+" (- "+t+" "+dOff+"))")))
						in2 := sImp(sOr("(< "+t+" "+dOff+")", "(>= "+t+" (+ "+dOff+" "+nC+"))"), sEq(sSel(faC, t), sSel(oldC, t)))
						vc.emit("(assert " + sImp(reach, sAnd(in1, in2)) + ")")
					}
				}
			})
		}
	}
	return Value{C: []Term{n}}, nil
}

// ---------------------------------------------------------------------
// intrinsics: functions whose semantics the engine knows (listed in the trusted base)

func (fr *Frame) intrinsic(fn *ssa.Function, cc *ssa.CallCommon, args []Value, st *State, site ssa.Instruction) (Value, bool, error) {
	vc := fr.vc
	full := fn.String()
	if strings.HasPrefix(full, "sync/atomic.") {
		name := strings.TrimPrefix(full, "sync/atomic.")
		pt := cc.Args[0].Type().Underlying().(*types.Pointer).Elem()
		vc.assumed["sync/atomic operations modelled as sequentially consistent single steps"] = true
		switch {
		case strings.HasPrefix(name, "Load"):
			return vc.load(st, args[0], pt), true, nil
		case strings.HasPrefix(name, "Store"):
			vc.store(st, args[0], pt, args[1])
			return Value{}, true, nil
		case strings.HasPrefix(name, "Add"):
			cur := vc.load(st, args[0], pt)
			nv := iAdd(cur.C[0], args[1].C[0])
			if vc.arith == "wrap" {
				nv = wrapTo(pt, nv)
			}
			nv = vc.define("atomic.add", "Int", nv)
			vc.store(st, args[0], pt, Value{C: []Term{nv}})
			return Value{C: []Term{nv}}, true, nil
		case strings.HasPrefix(name, "Swap"):
			cur := vc.load(st, args[0], pt)
			vc.store(st, args[0], pt, args[1])
			return cur, true, nil
		case strings.HasPrefix(name, "CompareAndSwap"):
			cur := vc.load(st, args[0], pt)
			eq := vc.defineBool("cas", vc.valuesEqual(cur, args[1], pt, pt))
			nv := Value{C: make([]Term, len(cur.C))}
			for i := range cur.C {
				nv.C[i] = sIte(eq, args[2].C[i], cur.C[i])
			}
			vc.store(st, args[0], pt, nv)
			return Value{C: []Term{eq}}, true, nil
		}
	}
	switch full {
	case "time.Now":
		v := vc.freshValue("now", fn.Signature.Results().At(0).Type(), st)
		vc.declareFun("unixnano", []string{"Int", "Int"}, "Int")
		clock := vc.get(st, "ghost.clock", "Int")
		u := sApp("unixnano", v.C[0], v.C[1])
		vc.assume(st, "(>= "+u+" "+clock+")")
		vc.assume(st, inRange(types.Typ[types.Int64], u))
		vc.set(st, "ghost.clock", "Int", u)
		vc.assumed["time.Now(): non-decreasing clock (ghost.clock)"] = true
		return v, true, nil
	case "(time.Time).UnixNano":
		vc.declareFun("unixnano", []string{"Int", "Int"}, "Int")
		return Value{C: []Term{sApp("unixnano", args[0].C[0], args[0].C[1])}}, true, nil
	case "(*sync.Once).Do":
		// runs f exactly when it has not run before (ghost.once_done); f is executed inline when it is a known closure
		od := vc.get(st, "ghost.once_done", "(Array Int Int)")
		o := args[0].C[0]
		first := vc.defineBool("once.first", sEq(sSel(od, o), "0"))
		vc.set(st, "ghost.once_done", "(Array Int Int)", sStore(od, o, "1"))
		a := st.clone()
		a.reach = sAnd(st.reach, first)
		var err error
		if mc, ok := cc.Args[1].(*ssa.MakeClosure); ok {
			var bs []Value
			for _, b := range mc.Bindings {
				bs = append(bs, fr.val(b))
			}
			_, err = fr.callFunction(mc.Fn.(*ssa.Function), bs, nil, mc.Fn.(*ssa.Function).Signature.Results(), a, site, false, nil)
		} else {
			_, err = fr.unknownCall(nil, []Value{args[1]}, a, site)
		}
		if err != nil {
			return Value{}, true, err
		}
		b := st.clone()
		b.reach = sAnd(st.reach, sNot(first))
		m := vc.merge([]*State{a, b})
		keepP, keepV, keepR := st.panicking, st.panicVal, st.recovered
		*st = *m.clone()
		st.panicking, st.panicVal, st.recovered = keepP, keepV, keepR
		return Value{}, true, nil
	case "(*sync.WaitGroup).Add":
		wg := vc.get(st, "ghost.wg", "(Array Int Int)")
		vc.set(st, "ghost.wg", "(Array Int Int)", sStore(wg, args[0].C[0], iAdd(sSel(wg, args[0].C[0]), args[1].C[0])))
		return Value{}, true, nil
	case "(*sync.WaitGroup).Done":
		wg := vc.get(st, "ghost.wg", "(Array Int Int)")
		vc.set(st, "ghost.wg", "(Array Int Int)", sStore(wg, args[0].C[0], iSub(sSel(wg, args[0].C[0]), "1")))
		return Value{}, true, nil
	case "(*sync.WaitGroup).Wait":
		return Value{}, true, nil
	case "time.Sleep":
		return Value{}, true, nil
	case "(*sync.Mutex).Lock", "(*sync.RWMutex).Lock", "(*sync.RWMutex).RLock":
		held := vc.get(st, "ghost.held", "(Array Int Int)")
		mode := "1"
		if strings.HasSuffix(full, "RLock") {
			mode = "2"
		}
		vc.set(st, "ghost.held", "(Array Int Int)", sStore(held, args[0].C[0], mode))
		fr.onLock(st, args[0].C[0], cc.Args[0])
		return Value{}, true, nil
	case "(*sync.Mutex).Unlock", "(*sync.RWMutex).Unlock", "(*sync.RWMutex).RUnlock":
		held := vc.get(st, "ghost.held", "(Array Int Int)")
		fr.onUnlock(st, args[0].C[0], cc.Args[0])
		vc.set(st, "ghost.held", "(Array Int Int)", sStore(held, args[0].C[0], "0"))
		return Value{}, true, nil
	}
	return Value{}, false, nil
}

func (fr *Frame) onLock(st *State, m Term, mv ssa.Value)   {}
func (fr *Frame) onUnlock(st *State, m Term, mv ssa.Value) {}

var _ = ast.Inspect
