package main

import "strings"

// Lemmas: stand-alone SMT scripts (spec-level facts: induction steps, history
// lemmas over a transition relation stated in the contracts). The lemma text
// is the body of a script whose assertions must be jointly unsatisfiable.

func (e *Engine) lemmaObligations(prop string) []*Obligation {
	var out []*Obligation
	for _, l := range e.cs.Lemmas {
		ok := false
		for _, p := range l.Props {
			if p == prop {
				ok = true
			}
		}
		if !ok {
			continue
		}
		var sb strings.Builder
		sb.WriteString("(set-logic ALL)\n")
		for _, s := range e.cs.specsFor(l.Text) {
			sb.WriteString(s + "\n")
		}
		sb.WriteString(l.Text)
		sb.WriteString("\n(check-sat)\n")
		o := &Obligation{Name: shortPkg(l.Pkg) + "#lemma:" + l.Name, Kind: "lemma", Goal: sb.String(), Props: l.Props, Pos: l.File}
		out = append(out, o)
	}
	return out
}
