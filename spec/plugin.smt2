; C15 — the onion of plugin handlers.
; gnh_t/gnh_v: the (dynamic type, value) of the handler that a plugin manager's getNextHandler
; function g builds around handler h (ht,hv) with continuation n (nt,nv): uninterpreted.
(declare-fun gnh_t (Int Int Int Int Int) Int)
(declare-fun gnh_v (Int Int Int Int Int) Int)
; pfold(g, T, V, o, i, n, dt, dv): handler chain for handlers i..n-1 of the slice (T,V,o),
; innermost = default handler (dt,dv): fold(h_i, fold(h_i+1, ... default))
; sig pfold_t Int
; sig pfold_v Int
(define-funs-rec
  ((pfold_t ((g Int) (T (Array Int Int)) (V (Array Int Int)) (o Int) (i Int) (n Int) (dt Int) (dv Int)) Int)
   (pfold_v ((g Int) (T (Array Int Int)) (V (Array Int Int)) (o Int) (i Int) (n Int) (dt Int) (dv Int)) Int))
  ((ite (>= i n) dt (gnh_t g (select T (+ o i)) (select V (+ o i)) (pfold_t g T V o (+ i 1) n dt dv) (pfold_v g T V o (+ i 1) n dt dv)))
   (ite (>= i n) dv (gnh_v g (select T (+ o i)) (select V (+ o i)) (pfold_t g T V o (+ i 1) n dt dv) (pfold_v g T V o (+ i 1) n dt dv)))))
; identity that Unuse compares: reflect.ValueOf(h).Pointer(): for functions the code pointer
(declare-fun codeptr (Int Int) Int)
(declare-fun rv_pointer (Int Int Int) Int)
; does handler (ht,hv) match (same code pointer) one of the arguments m..an-1 of the slice (AT,AV,ao)?
(define-fun-rec matches_from ((AT (Array Int Int)) (AV (Array Int Int)) (ao Int) (m Int) (an Int) (ht Int) (hv Int)) Bool
  (ite (>= m an) false
       (or (= (codeptr ht hv) (codeptr (select AT (+ ao m)) (select AV (+ ao m))))
           (matches_from AT AV ao (+ m 1) an ht hv))))
; how many of the first k installed handlers (T,V,o) survive Unuse(args): non-nil and matching no argument
(define-fun-rec kept_count ((T (Array Int Int)) (V (Array Int Int)) (o Int) (k Int) (AT (Array Int Int)) (AV (Array Int Int)) (ao Int) (an Int)) Int
  (ite (<= k 0) 0
       (+ (kept_count T V o (- k 1) AT AV ao an)
          (ite (or (= (select T (+ o (- k 1))) 0)
                   (matches_from AT AV ao 0 an (select T (+ o (- k 1))) (select V (+ o (- k 1)))))
               0 1))))
; reflect.Value v = (typ, ptr, flag): is it the zero Value? what interface value does it hold?
(declare-fun rv_valid (Int Int Int) Bool)
(declare-fun rv_src_t (Int Int Int) Int)
(declare-fun rv_src_v (Int Int Int) Int)
; strings.ToLower on string identities; the name a Method reports
(declare-fun str_lower (Int) Int)
(declare-fun method_name (Int Int) Int)
(declare-fun rv_type (Int Int Int) Int)
(declare-fun type_numin (Int) Int)
(declare-fun type_variadic (Int) Bool)
(declare-fun method_missing (Int Int) Bool)
(declare-fun method_passctx (Int Int) Bool)
(declare-fun method_reterr (Int Int) Bool)
(declare-fun type_in (Int Int) Int)
(declare-fun type_elem (Int) Int)
(declare-fun type_out (Int Int) Int)
(declare-fun type_numout (Int) Int)
(declare-fun type_implements (Int Int) Bool)
