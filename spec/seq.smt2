; Sum of a[o .. o+k)
(define-fun-rec sumpre ((a (Array Int Int)) (o Int) (k Int)) Int
  (ite (<= k 0) 0 (+ (sumpre a o (- k 1)) (select a (+ o (- k 1))))))
; Euclid's gcd on non-negative integers (x mod 0 never evaluated)
(define-fun-rec gcdspec ((x Int) (y Int)) Int
  (ite (<= y 0) x (gcdspec y (mod x y))))
; gcd as the repository's helper computes it: larger operand first
(define-fun gcd2 ((x Int) (y Int)) Int
  (ite (< x y) (gcdspec y x) (gcdspec x y)))
; gcd of a[o .. o+k), k >= 1, folded from the left
(define-fun-rec gcdfold ((a (Array Int Int)) (o Int) (k Int)) Int
  (ite (<= k 1) (select a o) (gcd2 (gcdfold a o (- k 1)) (select a (+ o (- k 1))))))
