; Hprose wire format: byte classes
(define-fun isdigit ((x Int)) Bool (and (<= 48 x) (<= x 57)))
; number of non-nil elements among the first k elements of a [][]byte (A = the .arr components of
; the elements, o = the slice's offset); a nil []byte has arr = 0
; sig nn_count Int
(define-fun-rec nn_count ((A (Array Int Int)) (AO (Array Int Int)) (AL (Array Int Int)) (AC (Array Int Int)) (o Int) (k Int)) Int
  (ite (<= k 0) 0 (+ (nn_count A AO AL AC o (- k 1)) (ite (= (select A (+ o (- k 1))) 0) 0 1))))
; powers of ten up to 10^20 (a table, so that everything stays linear)
(define-fun pow10 ((k Int)) Int
  (ite (<= k 0) 1 (ite (= k 1) 10 (ite (= k 2) 100 (ite (= k 3) 1000 (ite (= k 4) 10000 (ite (= k 5) 100000 (ite (= k 6) 1000000
  (ite (= k 7) 10000000 (ite (= k 8) 100000000 (ite (= k 9) 1000000000 (ite (= k 10) 10000000000 (ite (= k 11) 100000000000
  (ite (= k 12) 1000000000000 (ite (= k 13) 10000000000000 (ite (= k 14) 100000000000000 (ite (= k 15) 1000000000000000
  (ite (= k 16) 10000000000000000 (ite (= k 17) 100000000000000000 (ite (= k 18) 1000000000000000000
  (ite (= k 19) 10000000000000000000 100000000000000000000)))))))))))))))))))))
