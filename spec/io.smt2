; Hprose wire format: byte classes
(define-fun isdigit ((x Int)) Bool (and (<= 48 x) (<= x 57)))
