; Hprose wire format: byte classes
(define-fun isdigit ((x Int)) Bool (and (<= 48 x) (<= x 57)))
; number of non-nil elements among the first k elements of a [][]byte (A = the .arr components of
; the elements, o = the slice's offset); a nil []byte has arr = 0
; sig nn_count Int
(define-fun-rec nn_count ((A (Array Int Int)) (AO (Array Int Int)) (AL (Array Int Int)) (AC (Array Int Int)) (o Int) (k Int)) Int
  (ite (<= k 0) 0 (+ (nn_count A AO AL AC o (- k 1)) (ite (= (select A (+ o (- k 1))) 0) 0 1))))
