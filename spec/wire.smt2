; CRC-32 (IEEE) of an 8-byte / 4-byte window: uninterpreted, 32 bit.
(declare-fun crc8 (Int Int Int Int Int Int Int Int) Int)
(declare-fun crc4 (Int Int Int Int) Int)
; k-th byte (0 = least significant) of a non-negative integer
(define-fun byteof ((x Int) (k Int)) Int (mod (div x (ite (= k 0) 1 (ite (= k 1) 256 (ite (= k 2) 65536 16777216)))) 256))
; the socket frame header found at position p of a byte stream s
(define-fun hdr_crcok ((s (Array Int Int)) (p Int)) Bool
  (= (crc8 (select s (+ p 4)) (select s (+ p 5)) (select s (+ p 6)) (select s (+ p 7)) (select s (+ p 8)) (select s (+ p 9)) (select s (+ p 10)) (select s (+ p 11)))
     (+ (* (select s p) 16777216) (* (select s (+ p 1)) 65536) (* (select s (+ p 2)) 256) (select s (+ p 3)))))
(define-fun hdr_len ((s (Array Int Int)) (p Int)) Int
  (+ (* (mod (select s (+ p 4)) 128) 16777216) (* (select s (+ p 5)) 65536) (* (select s (+ p 6)) 256) (select s (+ p 7))))
(define-fun hdr_idx ((s (Array Int Int)) (p Int)) Int
  (+ (* (mod (select s (+ p 8)) 128) 16777216) (* (select s (+ p 9)) 65536) (* (select s (+ p 10)) 256) (select s (+ p 11))))
(define-fun hdr_noerr ((s (Array Int Int)) (p Int)) Bool (< (select s (+ p 8)) 128))
; the UDP frame header (8 bytes) at the start of datagram bytes s
(define-fun uhdr_crcok ((s (Array Int Int))) Bool
  (= (crc4 (select s 4) (select s 5) (select s 6) (select s 7))
     (+ (* (select s 0) 16777216) (* (select s 1) 65536) (* (select s 2) 256) (select s 3))))
(define-fun uhdr_len ((s (Array Int Int))) Int (+ (* (select s 4) 256) (select s 5)))
(define-fun uhdr_idx ((s (Array Int Int))) Int (+ (* (mod (select s 6) 128) 256) (select s 7)))
(define-fun uhdr_noerr ((s (Array Int Int))) Bool (< (select s 6) 128))
