#!/usr/bin/env python3
"""Regenerates MANIFEST.json from manifest_src.json (per-property texts) so the
file stays valid and consistent: run after claiming / unclaiming a property."""
import json, subprocess, os
here = os.path.dirname(os.path.abspath(__file__))
src = json.load(open(os.path.join(here, "manifest_src.json")))
props = [json.loads(l) for l in open(os.path.join(here, "properties.jsonl"))]
# every commit that touches a guarded contract file (all are comment-only files named verif_contracts.go)
hook_commits = subprocess.run(["git","-C","/repo","log","--format=%H","--",":(glob)**/verif_contracts.go"],capture_output=True,text=True).stdout.split()
# (one of them, 086443d, is a "fix:" commit that also carries a 9-line edit of its package's contract file)
checks = []
na = []
for p in props:
    pid = p["id"]
    c = src["claimed"].get(pid)
    if c:
        checks.append({
            "property_id": pid,
            "quick_cmd": f"bin/govc check -prop {pid} -tier quick",
            "thorough_cmd": f"bin/govc check -prop {pid} -tier thorough",
            "evidence_file": f"/verif/evidence/{pid}.json",
            "replay_cmd_template": "bin/govc replay {path}",
            "engine": "govc",
            "level_claimed": {"category": "proof", "text": c["text"], "design_ref": c.get("design_ref", "DESIGN.md section 4, " + pid)},
            "level_note": c["note"],
            "technique": c.get("technique", "contract-based deductive verification: WP/VC generation over go/ssa of the real code, contracts in build-tag guarded comment files, obligations discharged by z3/cvc5"),
        })
    else:
        na.append({"property_id": pid, "reason": src["not_applicable"].get(pid, "contracts not built yet (see DESIGN.md section 4 for the plan)")})
m = {
    "version": 1,
    "setup_cmd": "mkdir -p bin cache && cd engine && GOFLAGS=-mod=mod GOPROXY=off GOSUMDB=off GOTOOLCHAIN=local go build -o ../bin/govc .",
    "hooks": {
        "guard": "verif",
        "enable": "-tags verif (the guarded files are comment-only contract files, verif_contracts.go, one per package; they add no code)",
        "baseline_off_cmd": "cd /repo && GOFLAGS=-mod=mod GOPROXY=off GOSUMDB=off go test -json -vet=off -count=1 -timeout 25m ./...",
        "source_commits": hook_commits,
        "add_only": True,
    },
    "engines": [{"name": "govc", "path": "/verif/engine", "serves_properties": [c["property_id"] for c in checks],
                 "kind_free_text": "self-written deductive verifier for Go: contracts (requires/ensures/invariant/modifies/ghost) in //go:build verif comment files in /repo, verification conditions generated from go/ssa of /repo's current tree (passive form, Burstall-Bornat heap, loop cutting by invariants, defer/recover/panic edges), discharged per obligation by a z3 5.1 / cvc5 1.0 / z3 4.8 portfolio; structural obligations over the SSA for lock/recover/encapsulation disciplines"}],
    "checks": checks,
    "not_applicable": na,
    "notes": src.get("notes", ""),
}
json.dump(m, open(os.path.join(here, "MANIFEST.json"), "w"), indent=1)
print("claimed:", [c["property_id"] for c in checks])
