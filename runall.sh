#!/bin/bash
# runs the quick check of every claimed property; prints one line per property and any alarm
cd "$(dirname "$0")"
rc=0
for p in $(python3 -c "import json;print(' '.join(c['property_id'] for c in json.load(open('MANIFEST.json'))['checks']))"); do
  out=$(bin/govc check -prop $p -tier ${1:-quick} $2 2>&1); code=$?
  echo "$out" | grep -E "^property|^VIOLATION" | cut -c1-260
  [ $code -ne 0 ] && { echo "EXIT $code for $p"; rc=1; }
done
exit $rc
