#!/usr/bin/env python3
"""Refreshes the obligation counts in DESIGN.md section 9.2 from the evidence files of the last run."""
import json, re, os
here = os.path.dirname(os.path.abspath(__file__))
s = open(os.path.join(here, "DESIGN.md")).read()
def row(m):
    pid = m.group(1)
    try:
        e = json.load(open(os.path.join(here, "evidence", pid + ".json")))
    except Exception:
        return m.group(0)
    n = e["coverage"].get("generated_total")
    w = e.get("wall_s")
    return "| %s | %s, ~%d s |" % (pid, n, round(w)) if n else m.group(0)
s2 = re.sub(r"^\| (C\d\d) \| [0-9][^|]* \|", row, s, flags=re.M)
open(os.path.join(here, "DESIGN.md"), "w").write(s2)
print("updated" if s2 != s else "unchanged")
